"""Dual-mode obligation helper.

An obligation is a plain function `ob(*symbolic_args) -> bool` with PEP-316
pre/post lines in its docstring (`post: _`).  Its body runs the repository's
real code, builds an observation (a tuple of primitives) and hands inputs,
observation and the expected observation (from an independent reference) to
`hx.check(...)`.

* symbolic mode (python3-vt, under CrossHair): `check` compares (forking where
  needed); on success it counts an oracle evaluation and stores a *model peek*
  of (inputs, observation) without adding constraints; on failure it realises
  the witness and stores it - CrossHair stops at the first refuted path.
* concrete mode (/venv/bin/python, pristine source, no CrossHair): `check`
  compares and stores the observation for the replay driver.

Outer concrete parameters (class index, table row, depth, ...) are passed
through the module-level dict `P` of the harness module.
"""

SYMBOLIC = False
RESETTERS = []          # callables run at the start of every path


class _State:
    def __init__(self):
        self.paths = 0
        self.oracle = 0
        self.samples = []
        self.sample_cap = 6
        self.witness = None
        self.last = None
        self.lcg = 12345
        self.notes = {}


S = _State()


def reset_state(seed=0, sample_cap=6):
    S.__init__()
    S.lcg = (seed * 2654435761 + 12345) % (1 << 64)
    S.sample_cap = sample_cap


def begin():
    """call at the top of every obligation body"""
    S.paths += 1
    for fn in RESETTERS:
        fn()


def note(key, n=1):
    S.notes[key] = S.notes.get(key, 0) + n


def _peek(v):
    from . import peek
    return peek.peek(v)


def _realize(v):
    from crosshair.core import deep_realize
    return deep_realize(v)


def concretize(v):
    """force a concrete value (symbolic runs: CrossHair realises and forks per value)"""
    if SYMBOLIC:
        return _realize(v)
    return v


def concretize_range(v, lo, hi):
    """concrete int in [lo, hi) by bisection (log2(n) solver-decided forks per value instead of CrossHair's
    linear value enumeration)"""
    if not SYMBOLIC:
        return v
    while hi - lo > 1:
        mid = (lo + hi) // 2
        if v < mid:
            hi = mid
        else:
            lo = mid
    return lo


def _stash_sample(inputs, obs):
    from crosshair.tracers import NoTracing
    try:
        snap = _peek((inputs, obs))
    except Exception as e:  # unsupported symbolic kind: sample is skipped, not the verdict
        with NoTracing():
            note("peek_failed:" + type(e).__name__)
        return
    with NoTracing():
        # reservoir sampling over completed paths (own LCG: CrossHair intercepts `random`)
        if len(S.samples) < S.sample_cap:
            S.samples.append(snap)
        else:
            S.lcg = (S.lcg * 6364136223846793005 + 1442695040888963407) % (1 << 64)
            j = (S.lcg >> 33) % max(1, S.oracle)
            if j < S.sample_cap:
                S.samples[j] = snap


def check(inputs, obs, exp, why=""):
    """oracle: observation must equal the expected observation"""
    if SYMBOLIC:
        ok = bool(obs == exp)
        if ok:
            S.oracle += 1
            _stash_sample(inputs, obs)
            return True
        S.witness = {"inputs": _realize(inputs), "obs": _realize(obs), "exp": _realize(exp), "why": why}
        return False
    ok = obs == exp
    S.oracle += 1
    S.last = {"ok": ok, "obs": obs, "exp": exp, "why": why}
    return ok


def holds(inputs, cond, obs=(), why=""):
    """oracle given as a boolean condition; obs is what the differential replay compares"""
    if SYMBOLIC:
        ok = bool(cond)
        if ok:
            S.oracle += 1
            _stash_sample(inputs, obs)
            return True
        S.witness = {"inputs": _realize(inputs), "obs": _realize(obs), "exp": None, "why": why}
        return False
    ok = bool(cond)
    S.oracle += 1
    S.last = {"ok": ok, "obs": obs, "exp": None, "why": why}
    return ok


def fail(inputs, why, obs=()):
    return holds(inputs, False, obs, why)


class HarnessStop(BaseException):
    """control exception of the harness (the code under test catches Exception broadly)"""


class _Null:
    def __enter__(self):
        return self

    def __exit__(self, *a):
        return False


def untraced():
    """context manager: run a fully concrete stretch of an obligation natively (no CrossHair tracing).  Only sound when
    nothing inside depends on a symbolic value - e.g. after every symbolic input has been concretised (each concretisation
    is a recorded branch of the path)."""
    if not SYMBOLIC:
        return _Null()
    from crosshair.tracers import NoTracing
    return NoTracing()
