"""Concrete driver: runs obligations / reproductions on pristine source, no CrossHair, no import hook.

usage: /venv/bin/python -m engine.concrete <job.json>   (cwd=/verif)
job = {"src": "/repo/src", "module": "harness.C01",
       "calls": [{"tag":..., "fn":..., "params": {...}, "args": <codec-encoded tuple>} |
                 {"tag":..., "repro": "<function name>"}]}
prints one line "RESULT <json>" per call.
"""
import json
import os
import sys
import traceback


def main():
    job = json.load(open(sys.argv[1]))
    sys.path.insert(0, os.path.dirname(os.path.dirname(os.path.abspath(__file__))))
    sys.path.insert(0, job["src"])
    os.environ.setdefault("TZ", "UTC")
    import time
    if hasattr(time, "tzset"):
        time.tzset()
    import logging
    logging.disable(logging.CRITICAL)
    from engine import hx, codec
    hx.SYMBOLIC = False
    import importlib
    mod = importlib.import_module(job["module"])
    for call in job["calls"]:
        res = {"tag": call.get("tag")}
        try:
            if "repro" in call:
                manifests, detail = getattr(mod, call["repro"])()
                res.update({"manifests": bool(manifests), "detail": str(detail)[:600]})
            else:
                hx.reset_state(0)
                mod.P.clear()
                mod.P.update(call.get("params", {}))
                if hasattr(mod, "setup"):
                    mod.setup(mod.P)
                args = codec.dec(call["args"])
                ret = getattr(mod, call["fn"])(*args)
                last = hx.S.last or {}
                res.update({"ret": bool(ret), "ok": bool(last.get("ok", ret)),
                            "obs": codec.enc(last.get("obs")), "exp": codec.enc(last.get("exp")),
                            "why": last.get("why", "")})
        except BaseException as e:  # noqa
            res.update({"error": repr(e), "tb": traceback.format_exc()[-1500:]})
        print("RESULT " + json.dumps(res), flush=True)


if __name__ == "__main__":
    main()
