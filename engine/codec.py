"""JSON <-> python for witnesses / samples (bytes, tuples, nested)."""


def enc(v):
    if isinstance(v, (bytes, bytearray)):
        return {"__b": bytes(v).hex()}
    if isinstance(v, tuple):
        return {"__t": [enc(x) for x in v]}
    if isinstance(v, list):
        return [enc(x) for x in v]
    if isinstance(v, dict):
        return {"__d": [[enc(k), enc(x)] for k, x in v.items()]}
    if isinstance(v, bool) or v is None or isinstance(v, (int, str)):
        return v
    if isinstance(v, float):
        return {"__f": v.hex()}
    return {"__r": repr(v)}


def dec(v):
    if isinstance(v, list):
        return [dec(x) for x in v]
    if isinstance(v, dict):
        if "__b" in v:
            return bytes.fromhex(v["__b"])
        if "__t" in v:
            return tuple(dec(x) for x in v["__t"])
        if "__d" in v:
            return {dec(k): dec(x) for k, x in v["__d"]}
        if "__f" in v:
            return float.fromhex(v["__f"])
        if "__r" in v:
            return v["__r"]
    return v
