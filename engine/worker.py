"""Symbolic worker: analyses a batch of obligations of one harness module under CrossHair.

usage: python3-vt -m engine.worker <job.json>    (cwd=/verif)
job = {"src": "/repo/src", "module": "harness.C01", "seed": 0, "specs": [spec...]}
spec = {"id": str, "fn": str, "params": {...}, "timeout": s, "path_timeout": s, "samples": n}
prints one line "RESULT <json>" per spec.
"""
import json
import os
import sys
import time
import traceback


def main():
    job = json.load(open(sys.argv[1]))
    src = job["src"]
    sys.path.insert(0, os.path.dirname(os.path.dirname(os.path.abspath(__file__))))
    import logging
    logging.disable(logging.CRITICAL)
    from engine import srchook
    srchook.install(src)
    sys.path.insert(0, src)
    import crosshair.core_and_libs  # noqa
    from crosshair.core_and_libs import analyze_function, run_checkables
    from crosshair.options import AnalysisKind, AnalysisOptionSet
    from crosshair.statespace import StateSpace
    import z3
    from engine import bitops, stubs, hx, codec, opaquefmt
    bitops.install()
    opaquefmt.install()
    stubs.install_socket_realize()
    stubs.install_struct_fix()
    stubs.install_getattr_fix()
    stubs.install_bytesio()
    hx.SYMBOLIC = True

    counters = {"checks": 0, "solver_s": 0.0, "forks": 0, "unknown": 0}
    _orig_check = z3.Solver.check

    def _check(self, *a):
        t0 = time.perf_counter()
        r = _orig_check(self, *a)
        counters["solver_s"] += time.perf_counter() - t0
        counters["checks"] += 1
        if r == z3.unknown:
            counters["unknown"] += 1
        return r
    z3.Solver.check = _check
    _orig_fork = StateSpace.choose_possible

    def _fork(self, *a, **k):
        counters["forks"] += 1
        return _orig_fork(self, *a, **k)
    StateSpace.choose_possible = _fork

    import importlib
    mod = importlib.import_module(job["module"])
    for spec in job["specs"]:
        t0 = time.time()
        res = {"id": spec["id"], "fn": spec["fn"], "params": spec.get("params", {})}
        try:
            for k in counters:
                counters[k] = 0
            for k in bitops.STATS:
                bitops.STATS[k] = 0
            hx.reset_state(job.get("seed", 0), spec.get("samples", 6))
            mod.P.clear()
            mod.P.update(spec.get("params", {}))
            opaquefmt.enable(bool(mod.P.get("opaquefmt")))
            if hasattr(mod, "setup"):
                mod.setup(mod.P)
            fn = getattr(mod, spec["fn"])
            opts = AnalysisOptionSet(
                per_condition_timeout=float(spec.get("timeout", 60)),
                per_path_timeout=float(spec.get("path_timeout", 20)),
                max_uninteresting_iterations=sys.maxsize,
                analysis_kind=[AnalysisKind.PEP316], report_all=True)
            msgs = list(run_checkables(analyze_function(fn, opts)))
            states = [m.state.name for m in msgs]
            res["states"] = states
            res["messages"] = [m.message[:400] for m in msgs]
            if states == ["CONFIRMED"] and hx.S.oracle > 0:
                verdict = "discharged"
            elif states == ["CONFIRMED"]:
                verdict = "inconclusive"
                res["reason"] = "vacuous: no path evaluated the oracle"
            elif "POST_FAIL" in states and hx.S.witness is not None:
                verdict = "refuted"
            elif any(s in ("EXEC_ERR", "POST_ERR", "SYNTAX_ERR", "IMPORT_ERR", "PRE_INVALID") for s in states):
                verdict = "error"
                tb = [getattr(m, "traceback", "") for m in msgs]
                res["reason"] = (" | ".join(res["messages"]) + " || " + " ".join(t[-1500:] for t in tb if t))[:3000]
            else:
                verdict = "inconclusive"
                res["reason"] = "budget/unknown: " + ",".join(states)
            res["verdict"] = verdict
            res["paths"] = hx.S.paths
            res["oracle_evals"] = hx.S.oracle
            res["witness"] = codec.enc(hx.S.witness) if hx.S.witness is not None else None
            res["samples"] = [codec.enc(s) for s in hx.S.samples]
            res["notes"] = dict(hx.S.notes)
        except BaseException as e:  # noqa
            res["verdict"] = "error"
            res["reason"] = "worker: " + repr(e) + " " + traceback.format_exc()[-1500:]
        res["solver_checks"] = counters["checks"]
        res["solver_time_s"] = round(counters["solver_s"], 3)
        res["solver_unknown"] = counters["unknown"]
        res["forks"] = counters["forks"]
        res["bitops"] = dict(bitops.STATS)
        res["wall_s"] = round(time.time() - t0, 2)
        res["stripped_log_statements"] = sum(srchook.STRIPPED.values())
        print("RESULT " + json.dumps(res), flush=True)


if __name__ == "__main__":
    main()
