"""Environment stubs shared by all symbolic runs (DESIGN 2.3)."""


class PyBytesIO:
    """io.BytesIO rejects CrossHair's symbolic bytes; write/getvalue semantics identical."""

    def __init__(self):
        self._b = b""

    def write(self, data):
        if not isinstance(data, (bytes, bytearray)) and type(data).__name__ not in ("SymbolicBytes", "SymbolicByteArray"):
            raise TypeError("a bytes-like object is required, not '%s'" % type(data).__name__)
        self._b = self._b + data
        return len(data)

    def getvalue(self):
        return self._b


def install_bytesio():
    import diameter.message.packer as _p
    _p.BytesIO = PyBytesIO


class SymDT:
    """datetime double carrying POSIX seconds (possibly symbolic); TZ=UTC identity conversions."""
    __ch_opaque__ = True

    def __init__(self, secs):
        self.secs = secs

    @classmethod
    def fromtimestamp(cls, secs, tz=None):
        return cls(secs)

    def timestamp(self):
        return self.secs

    def __eq__(self, other):
        return isinstance(other, SymDT) and self.secs == other.secs

    def __hash__(self):
        return hash(int(self.secs))

    def __str__(self):
        return "<SymDT>"


def install_datetime_double():
    import types
    import diameter.message.avp.avp as A
    A.datetime = types.SimpleNamespace(datetime=SymDT)


def install_socket_realize():
    """inet_ntop/inet_pton are C functions: their arguments are realised (address *content* is solver-picked)."""
    import socket as _s
    import types
    import diameter.message.avp.avp as A
    from crosshair.core import deep_realize

    def ntop(fam, b):
        return _s.inet_ntop(deep_realize(fam), deep_realize(b))

    def pton(fam, t):
        return _s.inet_pton(deep_realize(fam), deep_realize(t))
    A.socket = types.SimpleNamespace(AF_INET=_s.AF_INET, AF_INET6=_s.AF_INET6, inet_ntop=ntop, inet_pton=pton, error=_s.error)
