"""Environment stubs shared by all symbolic runs (DESIGN 2.3)."""


class PyBytesIO:
    """io.BytesIO rejects CrossHair's symbolic bytes; write/getvalue semantics identical."""

    def __init__(self):
        self._b = b""

    def write(self, data):
        if not isinstance(data, (bytes, bytearray)) and type(data).__name__ not in ("SymbolicBytes", "SymbolicByteArray"):
            raise TypeError("a bytes-like object is required, not '%s'" % type(data).__name__)
        self._b = self._b + data
        return len(data)

    def getvalue(self):
        return self._b


def install_bytesio():
    import diameter.message.packer as _p
    _p.BytesIO = PyBytesIO


class SymDT:
    """datetime double carrying POSIX seconds (possibly symbolic); TZ=UTC identity conversions."""
    __ch_opaque__ = True

    def __init__(self, secs):
        self.secs = secs

    @classmethod
    def fromtimestamp(cls, secs, tz=None):
        return cls(secs)

    def timestamp(self):
        return self.secs

    def __eq__(self, other):
        return isinstance(other, SymDT) and self.secs == other.secs

    def __hash__(self):
        return hash(int(self.secs))

    def __str__(self):
        return "<SymDT>"


def install_datetime_double():
    import types
    import diameter.message.avp.avp as A
    A.datetime = types.SimpleNamespace(datetime=SymDT)


def install_socket_realize():
    """inet_ntop/inet_pton are C functions: their arguments are realised (address *content* is solver-picked)."""
    import socket as _s
    import types
    import diameter.message.avp.avp as A
    from crosshair.core import deep_realize

    def ntop(fam, b):
        return _s.inet_ntop(deep_realize(fam), deep_realize(b))

    def pton(fam, t):
        return _s.inet_pton(deep_realize(fam), deep_realize(t))
    A.socket = types.SimpleNamespace(AF_INET=_s.AF_INET, AF_INET6=_s.AF_INET6, inet_ntop=ntop, inet_pton=pton, error=_s.error)


def install_struct_fix():
    """CrossHair 0.0.110's struct.unpack model only rejects buffers that are too *short*; CPython demands the exact
    size.  (Found by the differential replay: a 1-byte Unsigned32 payload 'decoded' symbolically.)"""
    import struct
    import crosshair.core as core
    from crosshair.core import deep_realize
    from crosshair.tracers import NoTracing
    orig = core._PATCH_REGISTRATIONS[struct.unpack]
    if getattr(orig, "_verif_fixed", False):
        return

    def unpack(fmt, buffer, /):
        with NoTracing():
            need = struct.calcsize(deep_realize(fmt))
        if len(buffer) != need:
            raise struct.error("unpack requires a buffer of %d bytes" % need)
        return orig(fmt, buffer)
    unpack._verif_fixed = True
    core._PATCH_REGISTRATIONS[struct.unpack] = unpack


def install_getattr_fix():
    """CrossHair 0.0.110 evaluates getattr()/hasattr() with tracing off, so a *property* reached through the builtin
    (MessageHeader._flags does getattr(self, f"is_{f}")) computes on symbolic values untraced and dies with
    CrossHairInternal.  Properties are evaluated with tracing on instead; everything else is delegated."""
    import crosshair.core as core
    from crosshair.tracers import NoTracing
    orig_g = core._PATCH_REGISTRATIONS[getattr]
    orig_h = core._PATCH_REGISTRATIONS[hasattr]
    if getattr(orig_g, "_verif_fixed", False):
        return
    _MISSING = object()

    def _prop(obj, name):
        if not isinstance(name, str):
            return None
        for k in type(obj).__mro__:
            v = k.__dict__.get(name)
            if v is not None:
                return v if isinstance(v, property) else None
        return None

    def g(obj, name, default=_MISSING):
        with NoTracing():
            p = _prop(obj, name)
        if p is not None and p.fget is not None:
            if default is _MISSING:
                return p.fget(obj)
            try:
                return p.fget(obj)
            except AttributeError:
                return default
        if default is _MISSING:
            return orig_g(obj, name)
        return orig_g(obj, name, default)

    def h(obj, name):
        with NoTracing():
            p = _prop(obj, name)
        if p is not None and p.fget is not None:
            try:
                p.fget(obj)
                return True
            except AttributeError:
                return False
        return orig_h(obj, name)
    g._verif_fixed = True
    core._PATCH_REGISTRATIONS[getattr] = g
    core._PATCH_REGISTRATIONS[hasattr] = h
