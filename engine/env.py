"""Virtual world for the node (DESIGN 2.3): clock, randomness, interrupt pipe, sockets, select, thread start.

Installed by node harnesses in *both* modes (symbolic under CrossHair, concrete replay under /venv/bin/python):
the replay then runs the repository's pristine source (logging present, real BytesIO/struct) on the same stubs.
Every stub is an assumption and is listed in the evidence.
"""
import errno
import queue as _q
import socket as real_socket
import types

STUBS = [
    "time.time/sleep in node/*.py -> virtual integer clock (non-decreasing); sleep = harness scheduler hook",
    "os.urandom/os.pipe/os.read/os.write in node/*.py -> deterministic counter; interrupt pipe = list (wake-ups delivered by the virtual select)",
    "random.randint/getrandbits in node/_helpers.py -> deterministic values (ids are arbitrary values of their range)",
    "StoppableThread.start / threading.Thread.start -> registered with the harness, not started; thread bodies run as plain calls (pumps) or cooperative generators",
    "Queue.get(block, timeout) on connection/application queues -> non-blocking during a pump; Empty = timeout",
    "PeerStats.add_received_req/add_processed_req_time/add_sent_result_code -> no-ops (statistics only; they key dicts by the clock second and would realise a symbolic clock); C19 runs with the real ones",
    "socket.socket/select.select in node/node.py -> virtual sockets (scripted recv/send/connect/accept, partial sends, errno faults) and a virtual select that returns what is ready once per I/O-loop iteration, incl. the interrupt pipe and the wake-up timeout",
]


class EndIter(BaseException):
    """ends exactly one iteration of Node._handle_connections (raised by the 2nd select call)"""


class VSock:
    def __init__(self, world, kind="conn"):
        self.w = world
        world.nfd += 1
        self._fn = world.nfd
        self.kind = kind
        self.closed = False
        self.out = b""
        self.inq = []
        self.backlog = []
        self.connect_plan = "inprogress"
        self.so_error = 0
        self.send_plan = []
        self.connected_to = None
        self.sent_log = []
        world.socks.append(self)

    def fileno(self):
        return -1 if self.closed else self._fn

    def close(self):
        self.closed = True

    def setsockopt(self, *a):
        pass

    def getsockopt(self, *a):
        return self.so_error

    def setblocking(self, b):
        pass

    def bind(self, a):
        pass

    def listen(self, n):
        pass

    def getsockname(self):
        return ("10.0.0.1", 5555)

    def connect(self, addr):
        self.connected_to = addr
        self.w.dialled.append((self.w.now, addr, self))
        plan = self.w.connect_plan.pop(0) if self.w.connect_plan else "inprogress"
        self.connect_plan = plan
        if plan == "ok":
            return
        if plan == "refused":
            raise real_socket.error(errno.ECONNREFUSED, "refused")
        raise real_socket.error(errno.EINPROGRESS, "in progress")

    def accept(self):
        s = self.backlog.pop(0)
        return s, ("10.0.0.2", 40000)

    def recv(self, n, flags=0):
        if not self.inq:
            # a non-blocking socket with nothing pending
            raise real_socket.error(errno.EAGAIN, "Resource temporarily unavailable")
        x = self.inq.pop(0)
        if isinstance(x, BaseException):
            raise x
        if n and len(x) > n:                 # a read returns at most the bytes asked for
            self.inq.insert(0, x[n:])
            x = x[:n]
        return x

    # the rest of the socket API a refactoring of the node might reasonably use
    def shutdown(self, how):
        pass

    def getpeername(self):
        return self.connected_to or ("10.0.0.2", 40000)

    def settimeout(self, t):
        pass

    def gettimeout(self):
        return 0.0

    def sendall(self, b):
        data = bytes(b)
        while data:
            k = self.send(data)
            data = data[k:]

    def recv_into(self, buf, nbytes=0):
        x = self.recv(nbytes or len(buf))
        n = len(x)
        buf[:n] = x
        return n

    def send(self, b, flags=0):
        if self.send_plan:
            k = self.send_plan.pop(0)
            if isinstance(k, BaseException):
                raise k
            n = len(b)
            k = 1 if k < 1 else (n if k > n else k)
        else:
            k = len(b)
        self.out = self.out + b[:k]
        self.sent_log.append(k)
        return k


class World:
    def __init__(self):
        self.reset()

    def reset(self):
        self.now = 1_700_000_000
        self.nfd = 100
        self.socks = []
        self.pipe = []
        self.dialled = []
        self.connect_plan = []
        self.calls = 0
        self.urand = 0
        self.started = []
        self.timed_out = False
        self.on_sleep = lambda s: None
        self.extra_conns = []
        self.randint_value = 5
        self.randbits_value = 77
        self.spawned = []
        self.thread_start_fails = False
        self.socket_fails = False
        self.eager_reader = False    # a connection's reader thread runs as soon as the I/O thread has queued bytes for it
        self.defer_pump = 0          # the connection workers lag behind the I/O thread for this many loop iterations

    # ---------------------------------------------------------------- shims
    def install(self):
        import diameter.node.node as node_mod
        import diameter.node.peer as peer_mod
        import diameter.node._helpers as helpers
        import diameter.node.application as app_mod
        w = self
        tshim = types.SimpleNamespace(time=lambda: w.now, sleep=lambda s: w.on_sleep(s))
        for m in (peer_mod, node_mod, helpers):
            m.time = tshim

        def urandom(n):
            w.urand += 1
            return w.urand.to_bytes(n, "big")

        def oswrite(fd, b):
            w.pipe.append(bytes(b))
            return len(b)

        def osread(fd, n):
            return w.pipe.pop(0) if w.pipe else b""
        oshim = types.SimpleNamespace(urandom=urandom, pipe=lambda: (990, 991), write=oswrite, read=osread)
        node_mod.os = oshim
        peer_mod.os = oshim
        helpers.random = types.SimpleNamespace(randint=lambda a, b: a + w.randint_value, getrandbits=lambda n: w.randbits_value)
        def mksock(*a):
            if w.socket_fails:
                raise OSError(errno.EMFILE, "Too many open files")       # socket creation itself can fail
            return VSock(w, "out")
        node_mod.socket = types.SimpleNamespace(
            socket=mksock, error=real_socket.error, AF_INET=2, SOCK_STREAM=1,
            SOL_SOCKET=1, SO_REUSEADDR=2, SO_LINGER=13, SO_ERROR=4)
        node_mod.select = types.SimpleNamespace(select=self.select)
        helpers.StoppableThread.start = lambda self_: w.started.append(self_)
        if not hasattr(peer_mod.PeerConnection, "_orig_add_in_bytes"):
            peer_mod.PeerConnection._orig_add_in_bytes = peer_mod.PeerConnection.add_in_bytes

            def add_in_bytes(self_, data):
                peer_mod.PeerConnection._orig_add_in_bytes(self_, data)
                if w.eager_reader:
                    w.pump_conn(self_)            # a legal schedule: the reader thread is faster than the I/O thread
            peer_mod.PeerConnection.add_in_bytes = add_in_bytes

        class VThread:
            """threading.Thread double for application.py: start() registers, the harness runs the target when it chooses"""

            def __init__(self_, group=None, target=None, name=None, args=(), kwargs=None, daemon=None):
                self_.target, self_.args, self_.kwargs = target, args, kwargs or {}
                self_.ran = False

            def start(self_):
                if w.thread_start_fails:
                    raise RuntimeError("can't start new thread")
                w.spawned.append(self_)

            def run_now(self_):
                self_.ran = True
                return self_.target(*self_.args, **self_.kwargs)

            def join(self_, timeout=None):
                pass
        import threading as _real_threading
        app_mod.threading = types.SimpleNamespace(Thread=VThread, Event=_real_threading.Event, Lock=_real_threading.Lock)
        self.node_mod, self.peer_mod, self.helpers, self.app_mod = node_mod, peer_mod, helpers, app_mod

    # ---------------------------------------------------------------- select model
    def select(self, r, w, x, timeout):
        self.calls += 1
        if self.calls > 1:
            raise EndIter()
        rr = []
        for s in r:
            if s == 990:
                if self.pipe:
                    rr.append(s)
            elif s.backlog or s.inq:
                rr.append(s)
        ww = [s for s in w if not s.closed and s.connect_plan != "pending"]
        if not rr and not ww:
            self.timed_out = True
        return rr, ww, []

    def iterate(self, node, th=None):
        """exactly one iteration of the real I/O loop"""
        self.calls = 0
        self.timed_out = False
        th = th or types.SimpleNamespace(is_stopped=False)
        try:
            node._handle_connections(th)
        except EndIter:
            pass

    @staticmethod
    def pump_queue(q, fn):
        """run a worker body (work_read_queue / work_write_queue / app consumers) until its queue is empty"""
        t = types.SimpleNamespace(is_stopped=False)
        rg = q.get

        def get(block=True, timeout=None):
            try:
                return rg(False)
            except _q.Empty:
                t.is_stopped = True
                raise
        q.get = get
        try:
            fn(t)
        finally:
            q.get = rg

    def pump_conn(self, c):
        moved = False
        if not c._read_buffer_queue.empty() and not c._read_thread.is_stopped:
            moved = True
            self.pump_queue(c._read_buffer_queue, c.work_read_queue)
        if not c._write_msg_queue.empty() and not c._write_thread.is_stopped:
            moved = True
            self.pump_queue(c._write_msg_queue, c.work_write_queue)
        return moved

    def pump(self, node):
        moved = False
        for c in list(node.connections.values()) + list(self.extra_conns):
            moved = self.pump_conn(c) or moved
        return moved

    def settle(self, node, th=None, max_iter=60):
        """run I/O-loop iterations + worker pumps until nothing is ready (the next select would time out)"""
        for _ in range(max_iter):
            self.iterate(node, th)
            if self.defer_pump > 0:
                self.defer_pump -= 1
                continue
            moved = self.pump(node)
            if self.timed_out and not moved and not self.pipe:
                return
        raise RuntimeError("world does not settle")

    def advance(self, node, seconds, th=None):
        """a select timeout: the clock jumps, the loop body runs (timers, reconnect)"""
        self.now += seconds
        self.settle(node, th)

    @staticmethod
    def frames(data):
        from diameter.message import Message
        out = []
        while len(data) >= 20:
            n = int.from_bytes(data[1:4], "big")
            if n < 20 or n > len(data):
                break
            out.append(Message.from_bytes(data[:n]))
            data = data[n:]
        return out


WORLD = World()


def drain(conn):
    """messages queued for transmission on a connection (the node's output at message level)"""
    out = []
    while True:
        try:
            out.append(conn._write_msg_queue.get_nowait())
        except _q.Empty:
            return out
