"""Symbolic-key views of the two big tables (DESIGN 2.4).

* SymKeyDict: dict whose lookups with a symbolic int key fork once on membership
  and then bisect over the sorted keys (used for the command registry).
* sym_lookup: abstraction of get_avp_dictionary_entry for symbolic (code, vendor):
  one fork per (type class, mandatory flag) group of the *live* dictionaries;
  code and vendor stay symbolic and range over all keys of the group.
"""
import z3
from crosshair.libimpl.builtinslib import SymbolicInt
from crosshair.statespace import context_statespace
from crosshair.tracers import NoTracing


class SymKeyDict(dict):
    last = "unset"

    def _match(self, key):
        r = self._match2(key)
        self.last = r
        return r

    def _match2(self, key):
        with NoTracing():
            if not isinstance(key, SymbolicInt):
                return key if dict.__contains__(self, key) else None
            space = context_statespace()
            ks = sorted(k for k in dict.keys(self) if isinstance(k, int))
            if not space.smt_fork(z3.Or([key.var == k for k in ks]), probability_true=0.5):
                return None
            lo, hi = 0, len(ks) - 1
            while lo < hi:
                mid = (lo + hi) // 2
                if space.smt_fork(key.var <= ks[mid]):
                    hi = mid
                else:
                    lo = mid + 1
            return ks[lo]

    def __contains__(self, key):
        return self._match(key) is not None

    def __getitem__(self, key):
        k = self._match(key)
        if k is None:
            raise KeyError(key)
        return dict.__getitem__(self, k)

    def get(self, key, default=None):
        k = self._match(key)
        return default if k is None else dict.__getitem__(self, k)


class AvpDictAbstraction:
    def __init__(self, only_types=None):
        import diameter.message.avp.avp as A
        from diameter.message.avp.dictionary import AVP_DICTIONARY, AVP_VENDOR_DICTIONARY
        self.A = A
        self.real = A.get_avp_dictionary_entry
        g = {}
        for c, e in AVP_DICTIONARY.items():
            g.setdefault((e["type"], e.get("mandatory")), []).append((c, 0))
        for v, d in AVP_VENDOR_DICTIONARY.items():
            if v == 0:
                continue
            for c, e in d.items():
                g.setdefault((e["type"], e.get("mandatory")), []).append((c, v))
        if only_types is not None:
            g = {k: v for k, v in g.items() if k[0].__name__ in only_types}
        self.groups = g
        self.entries = sum(len(v) for v in g.values())
        self.last = "unset"

    @staticmethod
    def _cond(keys, c, v):
        """membership of (c, v) in a key set, codes compressed to intervals per vendor"""
        byv = {}
        for (kc, kv) in keys:
            byv.setdefault(kv, []).append(kc)
        parts = []
        for kv, kcs in byv.items():
            kcs = sorted(set(kcs))
            ivs = []
            lo = hi = kcs[0]
            for k in kcs[1:]:
                if k == hi + 1:
                    hi = k
                else:
                    ivs.append((lo, hi))
                    lo = hi = k
            ivs.append((lo, hi))
            parts.append(z3.And(v == kv, z3.Or([c == a if a == b else z3.And(c >= a, c <= b) for a, b in ivs])))
        return z3.Or(parts)

    @staticmethod
    def _z(x):
        return x.var if isinstance(x, SymbolicInt) else z3.IntVal(int(x))

    def lookup(self, avp_code, vendor_id=0):
        with NoTracing():
            if not isinstance(avp_code, SymbolicInt) and not isinstance(vendor_id, SymbolicInt):
                e = self.real(avp_code, vendor_id)
                self.last = None if e is None else (e["type"], e.get("mandatory"))
                return e
            space = context_statespace()
            c, v = self._z(avp_code), self._z(vendor_id)
            for (T, mand), keys in self.groups.items():
                cond = self._cond(keys, c, v)
                if space.smt_fork(cond):
                    self.last = (T, mand)
                    e = {"name": "Sym-" + T.__name__, "type": T}
                    if mand is not None:
                        e["mandatory"] = mand
                    return e
            self.last = None
            return None

    def install(self):
        self.A.get_avp_dictionary_entry = self.lookup

    def uninstall(self):
        self.A.get_avp_dictionary_entry = self.real
