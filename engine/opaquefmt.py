"""Opaque formatting of symbolic scalars (DESIGN 2.2): CrossHair's `format` realises symbolic operands, so
an error message such as f"... value {new_value} ..." turns one symbolic path into one path per value.
When enabled, symbolic int/bool/bytes/str/float operands with a validated format spec render as a
placeholder instead.  Sound for 'which exception, if any' questions (formatting these built-in types with a
valid spec cannot raise); unsound for anything that inspects the produced text, so it is enabled only in
obligations whose oracle does not read message text."""
import crosshair.core_and_libs  # noqa: F401
import crosshair.core as core
from crosshair.libimpl import builtinslib as B
from crosshair.tracers import NoTracing

ENABLED = [False]
_orig = core._PATCH_REGISTRATIONS[format]


def _fmt(obj, format_spec=""):
    if ENABLED[0]:
        with NoTracing():
            if isinstance(obj, (B.SymbolicInt, B.SymbolicBool)) and isinstance(format_spec, str):
                format(0, format_spec)   # validates the spec exactly as CPython would
                return "<int>"
            if isinstance(obj, (B.SymbolicBytes, B.AnySymbolicStr, B.SymbolicFloat)) and format_spec == "":
                return "<sym>"
            if getattr(type(obj), "__ch_opaque__", False) and format_spec == "":
                return "<" + type(obj).__name__ + ">"      # harness doubles carrying symbolic fields
        if format_spec == "" and type(obj) in (tuple, list):
            with NoTracing():
                flat = all(isinstance(x, (int, str, bytes, float, type(None), B.SymbolicInt, B.SymbolicBytes, B.AnySymbolicStr, B.SymbolicFloat, B.SymbolicBool)) for x in obj)
            if flat:
                return "<seq>"          # repr of builtin scalars cannot raise
        if (format_spec == "" and not isinstance(obj, core.CrossHairValue) and type(obj).__format__ is object.__format__
                and type(obj).__str__ is not object.__str__ and type(obj).__module__.startswith(("diameter", "engine", "harness"))):
            return str(obj)            # plain object: its own (traced) __str__ instead of deep-realising every field
    return _orig(obj, format_spec)


def install():
    core._PATCH_REGISTRATIONS[format] = _fmt


def enable(on=True):
    ENABLED[0] = bool(on)
