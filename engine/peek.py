"""Non-forking evaluation of symbolic values in the current path's z3 model (DESIGN 2.8)."""
import z3
from crosshair.core import CrossHairValue
from crosshair.libimpl.builtinslib import SymbolicBool, SymbolicInt
from crosshair.statespace import context_statespace
from crosshair.tracers import NoTracing, ResumedTracing


def _model():
    space = context_statespace()
    s = space.solver
    r = s.check()
    if r != z3.sat:
        raise RuntimeError("peek: path condition " + str(r))
    return s.model()


def peek(v, m=None):
    with NoTracing():
        if m is None:
            m = _model()
        return _peek(v, m)


def _len(x):
    with ResumedTracing():
        return len(x)


def _item(x, i):
    with ResumedTracing():
        return x[i]


def _peek(v, m):
    if isinstance(v, SymbolicInt):
        return m.eval(v.var, model_completion=True).as_long()
    if isinstance(v, SymbolicBool):
        return z3.is_true(m.eval(v.var, model_completion=True))
    if isinstance(v, (tuple, list)):
        return type(v)(_peek(x, m) for x in v)
    if isinstance(v, dict):
        return {_peek(k, m): _peek(x, m) for k, x in v.items()}
    tn = type(v).__name__
    if tn == "SymbolicBytes":
        inner = v.inner
        n = _peek(_len(inner), m)
        return bytes(_peek(_item(inner, i), m) for i in range(n))
    if tn in ("SymbolicByteArray",):
        inner = v.inner
        n = _peek(_len(inner), m)
        return bytes(_peek(_item(inner, i), m) for i in range(n))
    if tn in ("SymbolicArrayBasedUniformTuple", "ShellMutableSequence", "SliceView", "SequenceConcatenation", "ListBasedSymbolicSequence"):
        n = _peek(_len(v), m)
        return [_peek(_item(v, i), m) for i in range(n)]
    if tn in ("LazyIntSymbolicStr", "SeqBasedSymbolicStr"):
        with ResumedTracing():
            cps = [ord(ch) for ch in v]
        return "".join(chr(_peek(c, m)) for c in cps)
    if isinstance(v, CrossHairValue):
        # generic symbolic sequence (List[int] arguments, slices, concatenations)
        try:
            n = _peek(_len(v), m)
            return [_peek(_item(v, i), m) for i in range(n)]
        except Exception:
            raise TypeError("peek: unsupported " + tn)
    return v
