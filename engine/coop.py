"""Cooperative threads from real source (DESIGN 2.5).

A real function's source is re-parsed every run and turned into a generator: a `yield` before every statement
(recursively through if/loops/try/match); every assignment to an attribute/subscript whose right-hand side reads
shared state is split into `tmp = rhs; yield; target = tmp` (read-modify-write races inside one source line are
visible); `with <lock>:` becomes a try-acquire loop yielding while blocked; calls named in `waiters` become yielding
waits (obj.coop_<meth>(...) -> (ready, value|exception)); calls to other transformed functions become `yield from`.
Nothing else changes; the statements executed are the repository's.  With `shared` given, preemption points are kept
only before statements that syntactically mention one of those names."""
import ast, inspect, textwrap, queue as _q

class Blocked: 
    def __init__(self, why): self.why = why

class _Coop(ast.NodeTransformer):
    def __init__(self, callees, waiters, shared=None):
        self.n = 0; self.callees = callees; self.waiters = waiters; self.shared = shared
    def _relevant(self, s):
        if self.shared is None: return True
        if isinstance(s, (ast.If, ast.While, ast.For, ast.Try, ast.With, ast.Match)):
            hdr = [getattr(s, "test", None), getattr(s, "iter", None)] + [i.context_expr for i in getattr(s, "items", [])]
            nodes = [n for h in hdr if h is not None for n in ast.walk(h)]
        else:
            nodes = list(ast.walk(s))
        for n in nodes:
            if isinstance(n, ast.Attribute) and n.attr in self.shared: return True
            if isinstance(n, ast.Name) and n.id in self.shared: return True
        return False
    def _y(self, node, tag=None):
        return ast.copy_location(ast.Expr(ast.Yield(ast.Constant(getattr(node, "lineno", 0)))), node)
    def _tmp(self): self.n += 1; return f"__coop_t{self.n}"
    def block(self, stmts):
        out = []
        for s in stmts:
            if isinstance(s, ast.Expr) and isinstance(s.value, ast.Constant):   # docstring
                continue
            if isinstance(s, ast.Pass): continue
            if self._relevant(s): out.append(self._y(s))
            out.extend(self.stmt(s))
        return out or [ast.Pass()]
    @staticmethod
    def _shared(t): return isinstance(t, (ast.Attribute, ast.Subscript))
    @staticmethod
    def _reads(e): return any(isinstance(n, (ast.Attribute, ast.Subscript, ast.Call)) for n in ast.walk(e))
    def _rewrite_calls(self, s):
        """replace calls to cooperative callees / waiters by (yield from ...)"""
        tr = self
        class R(ast.NodeTransformer):
            def visit_Call(self, c):
                self.generic_visit(c)
                if isinstance(c.func, ast.Attribute) and c.func.attr in tr.callees:
                    new = ast.Call(ast.Subscript(ast.Name("__COOP", ast.Load()), ast.Constant(c.func.attr), ast.Load()),
                                   [c.func.value] + c.args, c.keywords)
                    return ast.copy_location(ast.YieldFrom(new), c)
                if isinstance(c.func, ast.Attribute) and c.func.attr in tr.waiters:
                    new = ast.Call(ast.Name("__coop_wait", ast.Load()), [c.func.value, ast.Constant(c.func.attr)] + c.args, c.keywords)
                    return ast.copy_location(ast.YieldFrom(new), c)
                return c
            def visit_Lambda(self, l): return l
        return R().visit(s)
    def stmt(self, s):
        if isinstance(s, (ast.FunctionDef, ast.ClassDef)): return [s]
        if isinstance(s, ast.AugAssign) and self._shared(s.target):
            # x.a op= v  is  t = x.a; t op= v (in place for mutable objects, exactly as the interpreter does it); x.a = t
            t = self._tmp()
            tgt_load = ast.parse(ast.unparse(s.target), mode="eval").body
            load = ast.Assign([ast.Name(t, ast.Store())], tgt_load)
            inplace = ast.AugAssign(ast.Name(t, ast.Store()), s.op, s.value)
            store = ast.Assign([s.target], ast.Name(t, ast.Load()))
            return [ast.copy_location(load, s), self._rewrite_calls(ast.copy_location(inplace, s)), self._y(s), ast.copy_location(store, s)]
        if isinstance(s, ast.Assign) and any(self._shared(t) for t in s.targets) and self._reads(s.value):
            t = self._tmp()
            load = ast.Assign([ast.Name(t, ast.Store())], s.value)
            store = ast.Assign(s.targets, ast.Name(t, ast.Load()))
            return [self._rewrite_calls(ast.copy_location(load, s)), self._y(s), ast.copy_location(store, s)]
        if isinstance(s, ast.If):
            s.test = self._rewrite_calls(s.test); s.body = self.block(s.body); s.orelse = self.block(s.orelse) if s.orelse else []
            return [s]
        if isinstance(s, ast.While):
            s.test = self._rewrite_calls(s.test); s.body = self.block(s.body); return [s]
        if isinstance(s, ast.For):
            s.iter = self._rewrite_calls(s.iter); s.body = self.block(s.body); return [s]
        if isinstance(s, ast.Try):
            s.body = self.block(s.body)
            for h in s.handlers: h.body = self.block(h.body)
            s.orelse = self.block(s.orelse) if s.orelse else []
            s.finalbody = self.block(s.finalbody) if s.finalbody else []
            return [s]
        if isinstance(s, ast.Match):
            for c in s.cases: c.body = self.block(c.body)
            return [s]
        if isinstance(s, ast.With):
            assert len(s.items) == 1 and s.items[0].optional_vars is None
            lk = self._tmp()
            pre = ast.parse(f"{lk} = None\nwhile not {lk}.coop_try_acquire():\n    yield __coop_blocked").body
            pre[0].value = s.items[0].context_expr
            tr = ast.Try(body=self.block(s.body), handlers=[], orelse=[], finalbody=ast.parse(f"{lk}.coop_release()").body)
            return [ast.copy_location(x, s) for x in pre + [tr]]
        return [self._rewrite_calls(s)]

BLOCKED = Blocked("wait")
def coop_wait(obj, meth, *a, **k):
    """generic waiter protocol: obj.coop_<meth>(*a) returns (ready, value) ; yields while not ready"""
    f = getattr(obj, "coop_" + meth)
    while True:
        ready, val = f(*a, **k)
        if ready:
            if isinstance(val, BaseException): raise val
            return val
        # "runnable": the call is in progress but the thread is not waiting for anybody (e.g. socket.send copying with the GIL
        # released): an ordinary preemption point, the thread goes on unless the schedule switches here
        yield (0 if val == "runnable" else BLOCKED)

def coop(fn, callees=(), waiters=(), registry=None, shared=None):
    src = textwrap.dedent(inspect.getsource(fn))
    tree = ast.parse(src)
    from engine import srchook
    tree = srchook.StripLogging("<coop>").visit(tree)
    fd = tree.body[0]; fd.decorator_list = []
    tr = _Coop(set(callees), set(waiters), set(shared) if shared is not None else None)
    fd.body = tr.block(fd.body) + ast.parse("if False:\n    yield").body
    ast.fix_missing_locations(tree)
    ns = dict(fn.__globals__)
    ns["__coop_blocked"] = BLOCKED; ns["__coop_wait"] = coop_wait; ns["__COOP"] = registry if registry is not None else {}
    exec(compile(tree, inspect.getsourcefile(fn) or "<coop>", "exec"), ns)
    g = ns[fd.name]
    if registry is not None: registry[fd.name] = g
    return g, ast.unparse(tree)

class CoopLock:
    def __init__(self): self.held = False
    def coop_try_acquire(self):
        if self.held: return False
        self.held = True; return True
    def coop_release(self): self.held = False
    # plain use from non-transformed code
    def __enter__(self): assert not self.held; self.held = True
    def __exit__(self, *a): self.held = False

class CoopQueue:
    """queue whose get() in cooperative code waits; 'closed' makes a waiting get raise Empty (= timeout)"""
    def __init__(self): self.items = []; self.closed = False
    def put(self, x): self.items.append(x)
    def coop_get(self, block=True, timeout=None):
        if self.items: return True, self.items.pop(0)
        if self.closed: return True, _q.Empty()
        return False, None
    def get_nowait(self):
        if not self.items: raise _q.Empty
        return self.items.pop(0)
    def empty(self): return not self.items

def run(threads, pre_steps, pre_targets, max_steps=400):
    """threads: list of generators. Default policy: keep running current thread until it blocks/finishes, then lowest-index runnable.
    Preemption i happens at global step pre_steps[i], switching to runnable thread number pre_targets[i] (mod #others)."""
    n = len(threads); done = [False] * n; blocked = [False] * n
    cur = 0; step = 0; trace = []
    while not all(done):
        if step >= max_steps: raise RuntimeError("schedule too long %r" % (trace[-60:],))
        runnable = [i for i in range(n) if not done[i]]
        # preemption?
        for k in range(len(pre_steps)):
            if step == pre_steps[k]:
                others = [i for i in runnable if i != cur]
                if others:
                    cur = others[pre_targets[k] % len(others)]
        if done[cur] or blocked[cur]:
            cand = [i for i in runnable if not blocked[i]] or runnable
            # all blocked -> re-poll in order (blocked flags are hints; state may have changed)
            cur = cand[0]
        try:
            r = next(threads[cur])
            blocked[cur] = isinstance(r, Blocked)
            if not blocked[cur]:
                for i in range(n): blocked[i] = False if i != cur else blocked[i]
        except StopIteration:
            done[cur] = True
            for i in range(n): blocked[i] = False
        trace.append(cur); step += 1
        if all(blocked[i] or done[i] for i in range(n)) and not all(done):
            # everyone blocked: give each one more poll; if still all blocked -> deadlock
            progressed = False
            for i in range(n):
                if done[i]: continue
                try:
                    r = next(threads[i]); step += 1; trace.append(i)
                    if not isinstance(r, Blocked): blocked[i] = False; progressed = True; cur = i; break
                except StopIteration:
                    done[i] = True; progressed = True; break
            if not progressed: raise RuntimeError("deadlock")
    return trace


def run_choices(threads, choose, budget, max_steps=2000):
    """choose(step, nrunnable) -> int in [0, nrunnable): 0 = keep current, k = switch to k-th other runnable; asked only while budget remains."""
    n = len(threads); done = [False] * n; blocked = [False] * n
    cur = 0; step = 0; trace = []
    while not all(done):
        if step >= max_steps: raise RuntimeError("schedule too long")
        runnable = [i for i in range(n) if not done[i] and not blocked[i]]
        if not runnable:
            for i in range(n): blocked[i] = False
            runnable = [i for i in range(n) if not done[i]]
            # poll each once; if all still blocked -> deadlock
            prog = False
            for i in runnable:
                try:
                    r = next(threads[i]); step += 1
                    if not isinstance(r, Blocked): prog = True; cur = i; break
                    blocked[i] = True
                except StopIteration:
                    done[i] = True; prog = True; break
            if not prog: raise RuntimeError("deadlock")
            continue
        if cur not in runnable:
            cur = runnable[0]
        elif budget > 0 and len(runnable) > 1:
            k = choose(step, len(runnable))
            if k:
                others = [i for i in runnable if i != cur]
                cur = others[(k - 1) % len(others)]; budget -= 1
        try:
            r = next(threads[cur])
            if isinstance(r, Blocked): blocked[cur] = True
            else:
                for i in range(n): blocked[i] = False
        except StopIteration:
            done[cur] = True
            for i in range(n): blocked[i] = False
        trace.append(cur); step += 1
    return trace
