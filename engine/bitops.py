"""Exact symbolic & | ^ for CrossHair SymbolicInt (DESIGN 2.1).

x & c  (c >= 0)  = sum over bit runs (lo, len) of c: ((x div 2^lo) mod 2^len) * 2^lo
x & c  (c <  0)  = x - (x & ~c)
x | c            = x + c - (x & c)
x ^ c            = x + c - 2 (x & c)
Valid for all Python ints (infinite two's complement; z3 div/mod by positive
constants are floor semantics = Python's).  symbolic-with-symbolic: provably
bit-disjoint at a byte boundary -> addition; else both in [0, 2^64) -> bit
vectors; else stock realisation (counted).
"""
import operator as ops
import z3
import crosshair.core_and_libs  # noqa: F401  stock handlers must be registered first
from crosshair.libimpl.builtinslib import SymbolicInt, setup_binop, _BIN_OPS
from crosshair.statespace import context_statespace
from crosshair.tracers import NoTracing

STATS = {"const": 0, "disjoint": 0, "bv": 0, "realized": 0}
W = 64


def runs(c):
    """bit runs (lo, len) of a non-negative constant"""
    out = []
    i = 0
    while c >> i:
        if (c >> i) & 1:
            lo = i
            while (c >> i) & 1:
                i += 1
            out.append((lo, i - lo))
        else:
            i += 1
    return out


def and_const(x, c):
    """z3 Int expr for (x & c); x z3 Int expr, c python int; exact for all ints"""
    if c >= 0:
        terms = [((x / (1 << lo)) % (1 << ln)) * (1 << lo) for lo, ln in runs(c)]
        return z3.Sum(terms) if terms else z3.IntVal(0)
    return x - and_const(x, -c - 1)


def const_op(op, x, c):
    a = and_const(x, c)
    if op is ops.and_:
        return a
    if op is ops.or_:
        return x + c - a
    return x + c - 2 * a


def _sym_op(op, x, y):
    space = context_statespace()
    solver = space.solver
    for k in (8, 12, 16, 20, 24, 32, 40, 48, 56):
        for lo, hi in ((x, y), (y, x)):
            cond = z3.And(lo >= 0, lo < (1 << k), hi % (1 << k) == 0)
            if solver.check(z3.Not(cond)) == z3.unsat:
                STATS["disjoint"] += 1
                return z3.IntVal(0) if op is ops.and_ else lo + hi
    inrange = z3.And(x >= 0, x < (1 << W), y >= 0, y < (1 << W))
    if solver.check(z3.Not(inrange)) == z3.unsat:
        STATS["bv"] += 1
        bx, by = z3.Int2BV(x, W), z3.Int2BV(y, W)
        r = {ops.and_: bx & by, ops.or_: bx | by, ops.xor: bx ^ by}[op]
        return z3.BV2Int(r, False)
    return None


def _const_fast(op, x, c):
    """x provably a non-negative multiple of 2^k with c < 2^k: or/xor is addition, and is 0"""
    if c <= 0 or op is ops.and_ and c < 0:
        return None
    k = c.bit_length()
    solver = context_statespace().solver
    if solver.check(z3.Not(z3.And(x >= 0, x % (1 << k) == 0))) == z3.unsat:
        STATS["disjoint"] += 1
        return z3.IntVal(0) if op is ops.and_ else x + c
    return None


def _h_sym_const(op, a: SymbolicInt, b: int):
    with NoTracing():
        if type(b) is bool:
            b = int(b)
        r = _const_fast(op, a.var, b) if b > 255 else None
        if r is not None:
            return SymbolicInt(r)
        STATS["const"] += 1
        return SymbolicInt(const_op(op, a.var, b))


def _h_const_sym(op, a: int, b: SymbolicInt):
    with NoTracing():
        if type(a) is bool:
            a = int(a)
        r = _const_fast(op, b.var, a) if a > 255 else None
        if r is not None:
            return SymbolicInt(r)
        STATS["const"] += 1
        return SymbolicInt(const_op(op, b.var, a))


def _h_sym_sym(op, a: SymbolicInt, b: SymbolicInt):
    with NoTracing():
        r = _sym_op(op, a.var, b.var)
        if r is not None:
            return SymbolicInt(r)
        STATS["realized"] += 1
    return op(a.__index__(), b.__index__())


_ALL = {ops.and_, ops.or_, ops.xor}
_installed = False


def install():
    global _installed
    if _installed:
        return
    setup_binop(_h_sym_const, _ALL)
    setup_binop(_h_const_sym, _ALL)
    setup_binop(_h_sym_sym, _ALL)
    _BIN_OPS.clear()
    _installed = True


def selftest(n=100000, seed=1):
    """identities against Python ints on random operands incl. negatives (no solver)."""
    import random
    rnd = random.Random(seed)
    x = z3.Int("x")
    bad = 0
    for _ in range(n):
        a = rnd.choice([rnd.getrandbits(rnd.choice([8, 24, 32, 64, 70])), -rnd.getrandbits(40)])
        c = rnd.choice([rnd.getrandbits(rnd.choice([8, 24, 32])), -rnd.getrandbits(12) - 1, 0x40, ~0x40, ~3, 0xffffff])
        for op in _ALL:
            e = z3.simplify(z3.substitute(const_op(op, x, c), (x, z3.IntVal(a))))
            if e.as_long() != op(a, c):
                bad += 1
    return bad
