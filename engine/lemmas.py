"""Direct z3 lemmas translated from the AST of small pure functions of the current source (DESIGN 2.4, 2.10).

Each lemma returns {"id", "verdict": discharged|refuted|inconclusive, "detail", "solver_checks", "solver_time_s", "model"}.
An AST node the translators do not know makes the lemma inconclusive (never silently skipped).
"""
import ast
import inspect
import textwrap
import time

import z3


class Unsupported(Exception):
    pass


def fn_ast(f):
    f = getattr(f, "__wrapped__", f)
    f = f.fget if isinstance(f, property) else f
    return ast.parse(textwrap.dedent(inspect.getsource(f))).body[0]


def and_const(x, c):
    if c >= 0:
        t = []
        k = 0
        while c >> k:
            if (c >> k) & 1:
                lo = k
                while (c >> k) & 1:
                    k += 1
                t.append(((x / (1 << lo)) % (1 << (k - lo))) * (1 << lo))
            else:
                k += 1
        return z3.Sum(t) if t else z3.IntVal(0)
    return x - and_const(x, -c - 1)


def ev(node, env):
    """integer expression -> z3 Int; `len(x)`, names and attribute chains come from env"""
    if isinstance(node, ast.Constant) and isinstance(node.value, int) and not isinstance(node.value, bool):
        return z3.IntVal(node.value)
    if isinstance(node, ast.Name):
        if node.id in env:
            return env[node.id]
        raise Unsupported("name " + node.id)
    if isinstance(node, ast.Call) and isinstance(node.func, ast.Name) and node.func.id == "len":
        key = "len(" + ast.unparse(node.args[0]) + ")"
        if key in env:
            return env[key]
        raise Unsupported(key)
    if isinstance(node, ast.Attribute):
        key = ast.unparse(node)
        if key in env:
            return env[key]
        raise Unsupported(key)
    if isinstance(node, ast.UnaryOp) and isinstance(node.op, ast.Invert):
        return -ev(node.operand, env) - 1
    if isinstance(node, ast.UnaryOp) and isinstance(node.op, ast.USub):
        return -ev(node.operand, env)
    if isinstance(node, ast.BinOp):
        a, b = ev(node.left, env), ev(node.right, env)
        sa, sb = z3.simplify(a), z3.simplify(b)
        if isinstance(node.op, ast.Add):
            return a + b
        if isinstance(node.op, ast.Sub):
            return a - b
        if isinstance(node.op, ast.Mult):
            return a * b
        if isinstance(node.op, ast.FloorDiv):
            if z3.is_int_value(sb) and sb.as_long() > 0:
                return a / sb
            raise Unsupported("floordiv by non-constant")
        if isinstance(node.op, ast.Mod):
            if z3.is_int_value(sb) and sb.as_long() > 0:
                return a % sb
            raise Unsupported("mod by non-constant")
        if isinstance(node.op, (ast.LShift, ast.RShift)) and z3.is_int_value(sb) and sb.as_long() >= 0:
            k = 1 << sb.as_long()
            return a * k if isinstance(node.op, ast.LShift) else a / k
        if isinstance(node.op, (ast.BitAnd, ast.BitOr, ast.BitXor)) and (z3.is_int_value(sa) or z3.is_int_value(sb)):
            if z3.is_int_value(sa):
                a, sb = b, sa
            c = sb.as_long()
            an = and_const(a, c)
            if isinstance(node.op, ast.BitAnd):
                return an
            if isinstance(node.op, ast.BitOr):
                return a + c - an
            return a + c - 2 * an
        if isinstance(node.op, ast.BitOr) and env.get("__disjoint_or"):
            # caller asserts (and separately proves) operands are bit-disjoint
            return a + b
    raise Unsupported(ast.dump(node)[:200])


def find_assign(fd, target, nth=0):
    hits = []
    for n in ast.walk(fd):
        if isinstance(n, ast.Assign) and ast.unparse(n.targets[0]) == target:
            hits.append(n)
        if isinstance(n, ast.AnnAssign) and ast.unparse(n.target) == target and n.value is not None:
            hits.append(n)
        if isinstance(n, ast.AugAssign) and ast.unparse(n.target) == target:
            hits.append(n)
    hits.sort(key=lambda n: n.lineno)
    if len(hits) <= nth:
        raise Unsupported("no assignment #%d to %s" % (nth, target))
    return hits[nth]


def decide(lid, formula, domain=None, timeout_ms=60000, detail=""):
    """prove `formula` for all values in `domain`: negation must be unsat"""
    s = z3.Solver()
    s.set("timeout", timeout_ms)
    if domain is not None:
        s.add(domain)
    s.add(z3.Not(formula))
    t0 = time.perf_counter()
    r = s.check()
    dt = time.perf_counter() - t0
    out = {"id": lid, "detail": detail, "solver_checks": 1, "solver_time_s": round(dt, 3)}
    if r == z3.unsat:
        out["verdict"] = "discharged"
    elif r == z3.sat:
        m = s.model()
        out["verdict"] = "refuted"
        out["model"] = {str(d): str(m[d]) for d in m.decls()}
    else:
        out["verdict"] = "inconclusive"
        out["detail"] += " (z3: unknown)"
    return out


def guarded(lid, build):
    try:
        return build()
    except Unsupported as e:
        return {"id": lid, "verdict": "inconclusive", "detail": "translator: unsupported construct: %s" % e,
                "solver_checks": 0, "solver_time_s": 0}
    except Exception as e:
        return {"id": lid, "verdict": "inconclusive", "detail": "translator error: %r" % e, "solver_checks": 0, "solver_time_s": 0}
