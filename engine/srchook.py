"""Import hook: diameter.* is loaded from the *current* source tree, parsed to an
AST, statement-level logging calls are replaced by `pass`, and the result is
compiled in memory (.pyc bypassed).  DESIGN 2.2.  Exceptions that could only
arise while formatting a log message are therefore outside every claim."""
import ast
import importlib.abc
import importlib.machinery
import importlib.util
import os
import sys

LOG_METHODS = {"debug", "info", "warning", "error", "exception", "critical", "log",
               "received", "sent", "log_peers", "log_stats"}
STRIPPED = {}


def _is_logger_expr(node):
    if isinstance(node, ast.Name):
        return "logger" in node.id or node.id == "msg_dump"
    if isinstance(node, ast.Attribute):
        return "logger" in node.attr or node.attr == "msg_dump"
    return False


class StripLogging(ast.NodeTransformer):
    def __init__(self, fn):
        self.fn = fn

    def visit_Expr(self, node):
        v = node.value
        if (isinstance(v, ast.Call) and isinstance(v.func, ast.Attribute)
                and v.func.attr in LOG_METHODS and _is_logger_expr(v.func.value)):
            STRIPPED[self.fn] = STRIPPED.get(self.fn, 0) + 1
            return ast.copy_location(ast.Pass(), node)
        return self.generic_visit(node)


class Loader(importlib.machinery.SourceFileLoader):
    def source_to_code(self, data, path, *, _optimize=-1):
        tree = ast.parse(data, filename=path)
        if os.environ.get("VERIF_KEEP_LOGGING") != "1":
            # (obligations whose inputs are all fixed before the repository's code runs execute it natively and keep the
            # logging statements: an exception raised while a log line is built is then part of what they see)
            tree = StripLogging(os.path.basename(path)).visit(tree)
        ast.fix_missing_locations(tree)
        return compile(tree, path, "exec", dont_inherit=True, optimize=_optimize)

    def get_code(self, fullname):  # bypass the pyc cache
        path = self.get_filename(fullname)
        return self.source_to_code(self.get_data(path), path)


class Finder(importlib.abc.MetaPathFinder):
    def __init__(self, root):
        self.root = root

    def find_spec(self, fullname, path, target=None):
        if fullname != "diameter" and not fullname.startswith("diameter."):
            return None
        rel = fullname.replace(".", "/")
        for cand, pkg in ((os.path.join(self.root, rel, "__init__.py"), True),
                          (os.path.join(self.root, rel + ".py"), False)):
            if os.path.exists(cand):
                return importlib.util.spec_from_file_location(
                    fullname, cand, loader=Loader(fullname, cand),
                    submodule_search_locations=[os.path.dirname(cand)] if pkg else None)
        return None


def install(root):
    sys.meta_path.insert(0, Finder(root))
