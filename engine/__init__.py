"""Solver-based checking engine for mensonen/diameter (CrossHair + z3 + direct z3 lemmas)."""
