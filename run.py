#!/usr/bin/env python3
"""Orchestrator.  run with python3-vt, cwd=/verif.

  run.py check <Cxx> [--tier quick|thorough]     decide one property (exit 0 / 1 VIOLATION / 2 engine error)
  run.py replay <file>                            re-run a stored counterexample on pristine code
  run.py selftest                                 engine self-tests (bit-op identities, translators)
"""
import argparse
import concurrent.futures as cf
import importlib
import json
import os
import random
import subprocess
import sys
import tempfile
import time

HERE = os.path.dirname(os.path.abspath(__file__))
sys.path.insert(0, HERE)
SRC = os.environ.get("DIAMETER_SRC", "/repo/src")
PY_SYM = os.environ.get("VERIF_PY_SYM", "python3-vt")
PY_CONC = os.environ.get("VERIF_PY_CONC", "/venv/bin/python")
NPROC = int(os.environ.get("VERIF_NPROC", "16"))
WORK = os.path.join(HERE, ".work")


def _tmpjob(obj):
    os.makedirs(WORK, exist_ok=True)
    fd, path = tempfile.mkstemp(suffix=".json", dir=WORK)
    with os.fdopen(fd, "w") as f:
        json.dump(obj, f)
    return path


def _run_lines(cmd, jobpath, timeout, extra_env=None):
    env = dict(os.environ, TZ="UTC", PYTHONDONTWRITEBYTECODE="1", PYTHONHASHSEED="0")
    env.update(extra_env or {})
    try:
        p = subprocess.run(cmd + [jobpath], cwd=HERE, env=env, capture_output=True, text=True, timeout=timeout)
        out, err, rc = p.stdout, p.stderr, p.returncode
    except subprocess.TimeoutExpired as e:
        out = e.stdout.decode() if isinstance(e.stdout, bytes) else (e.stdout or "")
        err = "TIMEOUT"
        rc = -9
    finally:
        try:
            os.unlink(jobpath)
        except OSError:
            pass
    res = []
    for line in out.splitlines():
        if line.startswith("RESULT "):
            res.append(json.loads(line[7:]))
    return res, err, rc


def run_symbolic_batch(module, specs, seed):
    job = _tmpjob({"src": SRC, "module": module, "seed": seed, "specs": specs})
    budget = sum(float(s.get("timeout", 60)) for s in specs) * 2.0 + 90 + 5 * len(specs)
    keep = bool(specs) and all(s.get("keep_logging") for s in specs)
    res, err, rc = _run_lines([PY_SYM, "-m", "engine.worker"], job, budget, {"VERIF_KEEP_LOGGING": "1" if keep else "0"})
    got = {r["id"] for r in res}
    for s in specs:
        if s["id"] not in got:
            res.append({"id": s["id"], "fn": s["fn"], "params": s.get("params", {}), "verdict": "error",
                        "reason": "worker produced no result (rc=%s) %s" % (rc, err[-800:]),
                        "paths": 0, "oracle_evals": 0, "samples": [], "witness": None, "solver_checks": 0,
                        "solver_time_s": 0, "forks": 0, "wall_s": 0, "bitops": {}, "notes": {}})
    return res


def run_concrete(module, calls, timeout=600):
    if not calls:
        return []
    job = _tmpjob({"src": SRC, "module": module, "calls": calls})
    res, err, rc = _run_lines([PY_CONC, "-m", "engine.concrete"], job, timeout)
    by = {r.get("tag"): r for r in res}
    out = []
    for c in calls:
        out.append(by.get(c["tag"], {"tag": c["tag"], "error": "no result rc=%s %s" % (rc, err[-600:])}))
    return out


def load_known(prop):
    path = os.path.join(HERE, "known_findings.json")
    if not os.path.exists(path):
        return []
    return [f for f in json.load(open(path))["findings"] if f["property"] == prop]


def check(prop, tier, seed):
    t_start = time.time()
    modname = "harness." + prop
    if SRC not in sys.path:
        sys.path.insert(0, SRC)
    import logging
    logging.disable(logging.CRITICAL)
    mod = importlib.import_module(modname)
    rnd = random.Random(seed)

    # ---- known findings: concrete reproduction first; a finding that no longer manifests suppresses nothing
    known = [f for f in load_known(prop) if f["status"] == "known"]
    carve = []
    known_lines = []
    if known:
        rr = run_concrete(modname, [{"tag": f["name"], "repro": f["repro"]} for f in known])
        for f, r in zip(known, rr):
            if r.get("manifests"):
                carve.append(f["name"])
                known_lines.append("KNOWN-FINDING: property=%s %s [%s]" % (prop, f["text"], r.get("detail", "")[:200]))
            elif "error" in r:
                print("NOTE known-finding reproduction %s errored: %s" % (f["name"], r["error"]))
    for l in known_lines:
        print(l)

    specs = mod.specs(tier, seed, carve)
    only = os.environ.get("VERIF_ONLY")
    if only:
        specs = [s for s in specs if only in s["id"]]
    for s in specs:
        s.setdefault("params", {})["carve"] = carve
    rnd.shuffle(specs)
    # ---- direct z3 lemmas (in-process)
    lemma_results = []
    if hasattr(mod, "lemmas"):
        lemma_results = mod.lemmas(tier, SRC)

    # ---- symbolic obligations over a process pool
    specs.sort(key=lambda s: -float(s.get("timeout", 60)))          # long obligations first (better packing); ties keep the seeded order
    nb = len(specs) if len(specs) <= 96 else NPROC * 6
    nb = max(1, nb)
    # obligations that run the repository's code natively with its logging statements in place get worker processes of their own
    plain = [s for s in specs if not s.get("keep_logging")]
    keepl = [s for s in specs if s.get("keep_logging")]
    batches = [plain[i::nb] for i in range(nb)] + [keepl[i::nb] for i in range(nb)]
    results = []
    with cf.ThreadPoolExecutor(max_workers=NPROC) as ex:
        futs = [ex.submit(run_symbolic_batch, modname, b, seed) for b in batches if b]
        for f in cf.as_completed(futs):
            results.extend(f.result())
    results.sort(key=lambda r: r["id"])
    os.makedirs(WORK, exist_ok=True)
    json.dump(results + lemma_results, open(os.path.join(WORK, "last_%s_%s.json" % (prop, tier)), "w"), indent=1)

    # ---- replay refutations on pristine code
    violations = []
    engine_errors = []
    calls = []
    for r in results:
        if r["verdict"] == "refuted":
            calls.append({"tag": r["id"], "fn": r["fn"], "params": r["params"], "args": _witness_args(r)})
    for lr in lemma_results:
        if lr["verdict"] == "refuted" and lr.get("replay"):
            calls.append({"tag": lr["id"], "fn": lr["replay"]["fn"], "params": lr["replay"].get("params", {}), "args": lr["replay"]["args"]})
    rr = run_concrete(modname, calls)
    os.makedirs(os.path.join(HERE, "replay"), exist_ok=True)
    for c, r in zip(calls, rr):
        if "error" in r:
            engine_errors.append("replay of %s errored: %s" % (c["tag"], r["error"]))
            continue
        if r.get("ok") is False:
            path = os.path.join(HERE, "replay", "%s-%s.json" % (prop, c["tag"].replace("/", "_").replace(" ", "_")))
            json.dump({"property": prop, "module": modname, "call": c, "observed": r}, open(path, "w"), indent=1)
            violations.append((c["tag"], path, r.get("why", "")))
        else:
            engine_errors.append("counterexample of %s does not reproduce on pristine code" % c["tag"])

    # ---- differential replay of discharged paths (model peeks -> pristine concrete run)
    dcalls = []
    per = 3 if tier == "quick" else 8
    for r in results:
        if r["verdict"] != "discharged":
            continue
        ss = list(r.get("samples", []))
        rnd.shuffle(ss)
        for k, s in enumerate(ss[:per]):
            inputs, obs = _sample_parts(s)
            dcalls.append({"tag": "%s#%d" % (r["id"], k), "fn": r["fn"], "params": r["params"], "args": inputs, "_obs": obs})
    validated = 0
    if getattr(mod, "DIFF_REPLAY", True):
        cap = 600 if tier == "quick" else 3000
        rnd.shuffle(dcalls)
        dcalls = dcalls[:cap]
        nchunks = max(1, min(NPROC, len(dcalls) // 20 + 1))
        chunks = [dcalls[i::nchunks] for i in range(nchunks)]
        with cf.ThreadPoolExecutor(max_workers=NPROC) as ex:
            futs = {ex.submit(run_concrete, modname, [{k: v for k, v in c.items() if k != "_obs"} for c in ch]): ch for ch in chunks if ch}
            for f in cf.as_completed(futs):
                ch = futs[f]
                for c, r in zip(ch, f.result()):
                    if "error" in r:
                        engine_errors.append("differential replay %s errored: %s" % (c["tag"], r["error"]))
                    elif r.get("ok") is False:
                        # the oracle fails on pristine code for these concrete inputs although the symbolic path passed it: the
                        # engine's model hid the behaviour (e.g. CrossHair switches functools.lru_cache off while tracing) - the
                        # concrete run is a reproduced counterexample in its own right
                        call = {k: v for k, v in c.items() if k != "_obs"}
                        path = os.path.join(HERE, "replay", "%s-%s.json" % (prop, c["tag"].replace("/", "_").replace(" ", "_").replace("#", "_diff")))
                        json.dump({"property": prop, "module": modname, "call": call, "observed": r}, open(path, "w"), indent=1)
                        violations.append((c["tag"], path, "(found by the differential replay of a discharged path) " + r.get("why", "")))
                    elif r.get("ok") is not True or r.get("obs") != c["_obs"]:
                        engine_errors.append("differential replay mismatch at %s: symbolic obs %s concrete %s ok=%s" % (
                            c["tag"], json.dumps(c["_obs"])[:300], json.dumps(r.get("obs"))[:300], r.get("ok")))
                    else:
                        validated += 1

    # ---- evidence
    n_ob = len(results) + len(lemma_results)
    disc = sum(1 for r in results if r["verdict"] == "discharged") + sum(1 for l in lemma_results if l["verdict"] == "discharged")
    inconc = [r for r in results if r["verdict"] in ("inconclusive", "error")] + [l for l in lemma_results if l["verdict"] == "inconclusive"]
    refuted = [r for r in results if r["verdict"] == "refuted"] + [l for l in lemma_results if l["verdict"] == "refuted"]
    sample_obs = []
    for r in results[:]:
        if len(sample_obs) >= 8:
            break
        sample_obs.append({"obligation": r["id"], "fn": r["fn"], "params": {k: v for k, v in r["params"].items() if k != "carve"},
                           "bound": r.get("bound") or _spec_bound(specs, r["id"]), "verdict": r["verdict"], "paths": r.get("paths"),
                           "oracle_evals": r.get("oracle_evals"), "solver_checks": r.get("solver_checks"),
                           "example_path_inputs": (r.get("samples") or [None])[0]})
    for l in lemma_results[:4]:
        sample_obs.append({"obligation": l["id"], "kind": "direct z3 lemma from AST", "verdict": l["verdict"], "detail": l.get("detail", "")[:300]})
    cov = {
        "states": max(1, sum(r.get("oracle_evals", 0) for r in results)),
        "transitions": max(1, sum(r.get("forks", 0) for r in results)),
        "traces_validated_against_impl": validated,
        "samples": sample_obs,
        "obligations": n_ob,
        "discharged": disc,
        "inconclusive": len(inconc),
        "refuted": len(refuted),
        "inconclusive_list": [{"id": r["id"], "reason": (r.get("reason") or "")[:300]} for r in inconc][:40],
        "paths_started": sum(r.get("paths", 0) for r in results),
        "solver_checks": sum(r.get("solver_checks", 0) for r in results) + sum(l.get("solver_checks", 0) for l in lemma_results),
        "solver_time_s": round(sum(r.get("solver_time_s", 0) for r in results) + sum(l.get("solver_time_s", 0) for l in lemma_results), 2),
        "solver_unknown": sum(r.get("solver_unknown", 0) for r in results),
        "realised_fallbacks": sum((r.get("bitops") or {}).get("realized", 0) for r in results),
        "bitop_rewrites": {k: sum((r.get("bitops") or {}).get(k, 0) for r in results) for k in ("const", "disjoint", "bv")},
        "log_statements_cut": max([r.get("stripped_log_statements", 0) for r in results] or [0]),
        "functions_encoded": getattr(mod, "FUNCTIONS_ENCODED", []),
        "bounds": getattr(mod, "BOUNDS", {}).get(tier, ""),
        "outside_claim": getattr(mod, "OUTSIDE", []),
        "stubs": getattr(mod, "STUBS", []),
        "known_findings_active": carve,
        "engine": "CrossHair 0.0.110 + z3 (python3-vt); counterexamples and sampled discharged paths re-executed by /venv/bin/python on pristine /repo/src",
        "exhaustive": False,
    }
    extra = getattr(mod, "extra_coverage", None)
    if extra:
        cov.update(extra(results, lemma_results))
    ev = {
        "property_id": prop, "tier": tier, "seed": seed, "level": "model_checking", "coverage": cov,
        "assumptions": getattr(mod, "ASSUMPTIONS", []),
        "wall_s": round(time.time() - t_start, 2), "violations": len(violations),
    }
    evdir = os.environ.get("VERIF_EVIDENCE_DIR") or os.path.join(HERE, "evidence")      # (dev runs against seeded changes write elsewhere)
    if only and not os.environ.get("VERIF_EVIDENCE_DIR"):
        evdir = os.path.join(WORK, "partial-evidence")                                  # a filtered run (VERIF_ONLY) is not evidence
    os.makedirs(evdir, exist_ok=True)
    json.dump(ev, open(os.path.join(evdir, prop + ".json"), "w"), indent=1)

    print("%s %s: obligations=%d discharged=%d inconclusive=%d refuted=%d paths=%d validated=%d wall=%.0fs" % (
        prop, tier, n_ob, disc, len(inconc), len(refuted), cov["states"], validated, time.time() - t_start))
    for r in inconc[:12]:
        print("  inconclusive %s: %s" % (r["id"], (r.get("reason") or "")[:200].replace("\n", " ")))
    for e in engine_errors[:20]:
        print("ENGINE-ERROR " + e)
    for tag, path, why in violations:
        print("VIOLATION property=%s replay=%s   (%s %s)" % (prop, path, tag, why[:160]))
    if violations:
        return 1
    if engine_errors:
        return 2
    return 0


def _witness_args(r):
    w = r["witness"]
    # witness is a codec-encoded dict {"inputs":..., "obs":..., "exp":..., "why":...}
    for k, v in w["__d"]:
        if k == "inputs":
            return v
    raise KeyError("inputs")


def _sample_parts(s):
    # codec-encoded tuple (inputs, obs)
    t = s["__t"]
    return t[0], t[1]


def _spec_bound(specs, sid):
    for s in specs:
        if s["id"] == sid:
            return s.get("bound", "")
    return ""


def replay(path):
    doc = json.load(open(path))
    r = run_concrete(doc["module"], [doc["call"]])[0]
    print(json.dumps(r, indent=1)[:3000])
    if r.get("ok") is False:
        print("VIOLATION property=%s replay=%s" % (doc["property"], path))
        return 1
    return 0


def selftest():
    from engine import bitops
    bad = bitops.selftest(100000)
    print("bitops identities: %d mismatches on 3x10^5 evaluations" % bad)
    return 1 if bad else 0


def main():
    ap = argparse.ArgumentParser()
    sub = ap.add_subparsers(dest="cmd", required=True)
    c = sub.add_parser("check")
    c.add_argument("prop")
    c.add_argument("--tier", default=os.environ.get("VERIF_TIER", "quick"))
    r = sub.add_parser("replay")
    r.add_argument("file")
    sub.add_parser("selftest")
    a = ap.parse_args()
    seed = int(os.environ.get("VERIF_SEED", "0") or 0)
    if a.cmd == "check":
        sys.exit(check(a.prop, a.tier, seed))
    if a.cmd == "replay":
        sys.exit(replay(a.file))
    sys.exit(selftest())


if __name__ == "__main__":
    main()
