"""dev helper: run uni histories concretely (no CrossHair) and print monitor findings.  usage: /venv/bin/python dev/uni_try.py <depth> [init ...]"""
import os, sys, itertools, time, collections
sys.path.insert(0, os.path.dirname(os.path.dirname(os.path.abspath(__file__))))
sys.path.insert(0, os.environ.get("DIAMETER_SRC", "/repo/src"))
import logging; logging.disable(logging.CRITICAL)
from engine import hx
hx.SYMBOLIC = False
from harness import uni as U
depth = int(sys.argv[1]); inits = sys.argv[2:] or U.INITS
pers = bool(int(os.environ.get("PERS", "0")))
seen = collections.Counter(); ex = {}
t0 = time.time(); n = 0
for init in inits:
    for names in itertools.product(U.EVENTS, repeat=depth):
        for f in hx.RESETTERS: f()
        n += 1
        try:
            u = U.run_history(init, list(names), pers, None, want_growth=True)
        except Exception as e:
            import traceback
            key = ("HARNESS", type(e).__name__ + str(e)[:80]); seen[key] += 1; ex.setdefault(key, (init, names, traceback.format_exc()[-600:])); continue
        base = U.baseline(init, pers)
        diff = {k: (base.get(k), v) for k, v in u.final.items() if base.get(k, 0) != v} if hasattr(u, "final") else {}
        if diff: u.v.append(("C19", "growth %s" % sorted(diff.items())[:3]))
        for p, t in u.v:
            key = (p, t.split("  [after")[0][:110]); seen[key] += 1; ex.setdefault(key, (init, names, t))
print("histories", n, "in %.1fs" % (time.time() - t0))
for k, c in sorted(seen.items()):
    print(c, k, "\n     e.g.", ex[k][0], ex[k][1], "\n     ", ex[k][2][-700:])
