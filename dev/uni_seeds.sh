#!/bin/bash
# dev: run the uni monitors (depth given) against seeded patches; prints which properties' monitors fire
depth=${1:-2}; shift
for sd in "$@"; do sd=$(readlink -f $sd)
  id=$(basename $sd)
  wt=/tmp/uniwt-$id
  git -C /repo worktree remove --force $wt 2>/dev/null; rm -rf $wt
  git -C /repo worktree add -q --detach $wt HEAD || continue
  git -C $wt apply $sd/patch.diff 2>/dev/null || git -C $wt apply --3way $sd/patch.diff 2>/dev/null || { echo "$id: patch does not apply"; git -C /repo worktree remove --force $wt; continue; }
  out=$(cd /verif && DIAMETER_SRC=$wt/src timeout 900 /venv/bin/python dev/uni_try.py $depth ${INITS} 2>&1 | grep "^[0-9]* ('" | grep -v "_app_waiting_answer" | sed "s/^\([0-9]*\) ('\(C[0-9]*\|HARNESS\)'.*/\2/" | sort | uniq -c | tr '\n' ' ')
  echo "$id: $out"
  git -C /repo worktree remove --force $wt; rm -rf $wt
done
