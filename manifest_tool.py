#!/usr/bin/env python3
"""dev helper: add/replace a check entry in MANIFEST.json and drop it from not_applicable; validates."""
import json, sys
m = json.load(open('/verif/MANIFEST.json'))
prop, text, note, tech = sys.argv[1:5]
entry = {"property_id": prop, "quick_cmd": "python3-vt run.py check %s --tier quick" % prop,
         "thorough_cmd": "python3-vt run.py check %s --tier thorough" % prop,
         "evidence_file": "evidence/%s.json" % prop, "replay_cmd_template": "python3-vt run.py replay {path}",
         "engine": "crosshair-z3",
         "level_claimed": {"category": "model_checking", "text": text, "design_ref": "DESIGN.md 3/" + prop},
         "level_note": note, "technique": tech}
m["checks"] = [c for c in m["checks"] if c["property_id"] != prop] + [entry]
m["checks"].sort(key=lambda c: c["property_id"])
m["not_applicable"] = [n for n in m.get("not_applicable", []) if n["property_id"] != prop]
for e in m["engines"]:
    if prop not in e["serves_properties"]:
        e["serves_properties"].append(prop); e["serves_properties"].sort()
json.dump(m, open('/verif/MANIFEST.json', 'w'), indent=1)
try:
    import jsonschema
    jsonschema.validate(m, json.load(open('/root/.vp/MANIFEST.schema.json')))
    ev = json.load(open('/verif/evidence/%s.json' % prop))
    jsonschema.validate(ev, json.load(open('/root/.vp/EVIDENCE.schema.json')))
    print("manifest + evidence valid")
except ImportError:
    print("jsonschema missing (run with python3-vt)")
