#!/usr/bin/env python3
"""dev tool (not a registered check): confirm a seeded change and run the owning check against it.

  seedtool.py confirm <src_dir> <seed_id> <property>     apply <src_dir>/patch.diff to a scratch worktree, run the suite and the demo
                                                         with and without the change, store under /verif/seeded/<seed_id>/
  seedtool.py check <seed_id> [--tier quick|thorough] [--props C01,C02]
                                                         run check(s) with DIAMETER_SRC pointing at a scratch worktree with the patch applied
"""
import json
import os
import shutil
import subprocess
import sys
import time

HERE = os.path.dirname(os.path.abspath(__file__))
SEEDED = os.path.join(HERE, "seeded")


def sh(cmd, **kw):
    return subprocess.run(cmd, shell=True, capture_output=True, text=True, **kw)


def scratch(seed_id, patch):
    wt = "/tmp/seedwt-%s-%d" % (seed_id, os.getpid())
    sh("git -C /repo worktree remove --force %s; rm -rf %s" % (wt, wt))
    r = sh("git -C /repo worktree add -q --detach %s HEAD" % wt)
    assert r.returncode == 0, r.stderr
    r = sh("git -C %s apply %s" % (wt, patch))
    if r.returncode != 0:
        r = sh("git -C %s apply --3way %s" % (wt, patch))
    assert r.returncode == 0, "patch does not apply: " + r.stderr
    return wt


def drop(wt):
    sh("git -C /repo worktree remove --force %s; rm -rf %s; git -C /repo worktree prune" % (wt, wt))


def confirm(src, seed_id, prop):
    patch = os.path.join(src, "patch.diff")
    demo = os.path.join(src, "demo.py")
    wt = scratch(seed_id, patch)
    try:
        t = sh("cd %s && TZ=UTC /venv/bin/python -m pytest -q -p no:cacheprovider tests/ 2>&1 | tail -1" % wt)
        env = "TZ=UTC timeout 120"
        d1 = sh("PYTHONPATH=%s/src %s /venv/bin/python %s" % (wt, env, demo))
        d0 = sh("PYTHONPATH=/repo/src %s /venv/bin/python %s" % (env, demo))
        files = sh("git -C %s diff --stat | tail -1" % wt).stdout.strip()
    finally:
        drop(wt)
    ok = ("157 passed" in t.stdout and "1 failed" in t.stdout) and d1.returncode == 1 and d0.returncode == 0
    meta = {}
    if os.path.exists(os.path.join(src, "meta.json")):
        meta = json.load(open(os.path.join(src, "meta.json")))
    meta.update({"property": prop, "seed_id": seed_id, "confirmed": ok,
                 "ran": {"suite": t.stdout.strip(), "demo_with_change_exit": d1.returncode, "demo_without_change_exit": d0.returncode,
                         "demo_output_with_change": d1.stdout[-400:], "diffstat": files,
                         "how": "patch applied to a scratch worktree of /repo HEAD; pytest tests/; demo.py run with PYTHONPATH=<scratch>/src and with PYTHONPATH=/repo/src"}})
    print(json.dumps({k: meta[k] for k in ("seed_id", "confirmed")}), t.stdout.strip(), d1.returncode, d0.returncode)
    if ok:
        dst = os.path.join(SEEDED, seed_id)
        os.makedirs(dst, exist_ok=True)
        shutil.copy(patch, os.path.join(dst, "patch.diff"))
        shutil.copy(demo, os.path.join(dst, "demo.py"))
        json.dump(meta, open(os.path.join(dst, "meta.json"), "w"), indent=1)
    return 0 if ok else 1


def check(seed_id, tier, props):
    dst = os.path.join(SEEDED, seed_id)
    meta = json.load(open(os.path.join(dst, "meta.json")))
    props = props or [meta["property"]]
    wt = scratch(seed_id, os.path.join(dst, "patch.diff"))
    res = {}
    try:
        for p in props:
            t0 = time.time()
            evf = os.path.join(HERE, "evidence", p + ".json")
            keep = open(evf).read() if os.path.exists(evf) else None
            r = sh("cd %s && VERIF_EVIDENCE_DIR=/tmp/seed-evidence DIAMETER_SRC=%s/src python3-vt run.py check %s --tier %s" % (HERE, wt, p, tier))
            vio = [l for l in r.stdout.splitlines() if l.startswith("VIOLATION")]
            res[p] = {"exit": r.returncode, "violations": vio[:4], "wall_s": round(time.time() - t0), "tier": tier,
                      "summary": [l for l in r.stdout.splitlines() if l.startswith(p + " ")][-1:]}
            print(seed_id, p, tier, "exit", r.returncode, vio[:2], res[p]["summary"])
            if r.returncode not in (0, 1):
                print(r.stdout[-1500:])
            # evidence written by this run describes the mutated tree: put back what was there
            pass
    finally:
        drop(wt)
    meta.setdefault("detected_by", {}).update(res)
    json.dump(meta, open(os.path.join(dst, "meta.json"), "w"), indent=1)
    return 0


def recheck(seed_id):
    """fast regression: run only the obligation(s) recorded as catching this seed (VERIF_ONLY) and expect a VIOLATION again"""
    import re
    dst = os.path.join(SEEDED, seed_id)
    meta = json.load(open(os.path.join(dst, "meta.json")))
    det = meta.get("detected_by", {})
    cands = []
    for prop, r in det.items():
        for v in r.get("violations", []):
            m = re.search(r"\((\S+) ", v)
            if m:
                cands.append((prop, m.group(1)))
    if not cands:
        print(seed_id, "RECHECK no recorded catching obligation")
        return 2
    wt = scratch(seed_id, os.path.join(dst, "patch.diff"))
    try:
        for prop, ob in cands[:3]:
            only = ob if len(ob) < 60 else ob[:60]
            evf = os.path.join(HERE, "evidence", prop + ".json")
            keep = open(evf).read() if os.path.exists(evf) else None
            r = sh("cd %s && VERIF_EVIDENCE_DIR=/tmp/seed-evidence DIAMETER_SRC=%s/src VERIF_ONLY='%s' python3-vt run.py check %s --tier quick" % (HERE, wt, only, prop))
            pass
            if "VIOLATION" in r.stdout:
                print(seed_id, "RECHECK ok", prop, only)
                return 0
        print(seed_id, "RECHECK LOST", cands[:3], r.stdout[-300:].replace("\n", " | "))
        return 1
    finally:
        drop(wt)


if __name__ == "__main__":
    if sys.argv[1] == "recheck":
        sys.exit(recheck(sys.argv[2]))
    if sys.argv[1] == "confirm":
        sys.exit(confirm(sys.argv[2], sys.argv[3], sys.argv[4]))
    tier = "quick"
    props = None
    a = sys.argv[3:]
    while a:
        if a[0] == "--tier":
            tier = a[1]
            a = a[2:]
        elif a[0] == "--props":
            props = a[1].split(",")
            a = a[2:]
        else:
            a = a[1:]
    sys.exit(check(sys.argv[2], tier, props))
