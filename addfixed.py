#!/usr/bin/env python3
"""addfixed.py <prop> <commit> <text> - append a 'fixed' entry to known_findings.json (maintenance helper, never run by checks)"""
import json, sys
p, c, t = sys.argv[1:4]
d = json.load(open("/verif/known_findings.json"))
d["findings"].append({"status": "fixed", "property": p, "commit": c, "line": "fixed: property=%s %s %s" % (p, c, t)})
json.dump(d, open("/verif/known_findings.json", "w"), indent=1)
