#!/usr/bin/env python3
"""dev helper: show per-obligation results of the last run"""
import json, sys
prop = sys.argv[1]; tier = sys.argv[2] if len(sys.argv) > 2 else "quick"
allr = len(sys.argv) > 3
for r in json.load(open('/verif/.work/last_%s_%s.json' % (prop, tier))):
    if allr or r['verdict'] != 'discharged' or r.get('wall_s', 0) > 30:
        print(r['id'], r['verdict'], 'paths', r.get('paths'), 'or', r.get('oracle_evals'), 'wall', r.get('wall_s'), 'chk', r.get('solver_checks'), r.get('solver_time_s'), r.get('states'), (r.get('reason') or r.get('detail') or '')[:300].replace(chr(10), ' '), r.get('model', ''))
        if r['verdict'] == 'refuted' and r.get('witness'): print('    W:', json.dumps(r['witness'])[:900])
