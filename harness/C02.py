"""C02 - message codec is byte-exact; class dispatch and AVP search are correct."""
from engine import hx
import diameter.message._base as base
import diameter.message.commands as cmds
from diameter.message import Message, MessageHeader, DefinedMessage, UndefinedMessage
from diameter.message.commands import DeviceWatchdogRequest
from diameter.message.avp import Avp, AvpGrouped
from diameter.message.avp import avp as A
from harness.C01 import ref_avp, be, be_at, pad4

PROPERTY = "C02"
P = {}
FUNCTIONS_ENCODED = ["MessageHeader.as_packed/as_bytes", "MessageHeader.from_bytes", "Message.as_bytes", "Message.from_bytes",
                     "type_factory of every registered command class", "DefinedMessage.__post_init__/avps", "UndefinedMessage.__post_init__",
                     "Message.find_avps", "_traverse_avp_tree", "commands.register", "Avp.from_unpacker", "AvpGrouped.value"]
STUBS = ["io.BytesIO -> pure-Python buffer (symbolic runs)", "all_commands -> dict view that forks (bisecting) on a symbolic command code",
         "get_avp_dictionary_entry -> type-class abstraction (re-encode obligations)"]
ASSUMPTIONS = ["CrossHair's int/bytes/struct models (counter-checked by differential replay on pristine code)",
               "typed classes normalise the R and P bits on construction: typed decodes are compared modulo exactly those two bits, generic decodes byte-exactly"]
BOUNDS = {"quick": "header: all 2^8 versions/flag octets, all 2^24 command codes, all 32-bit ids; 0..3 AVPs with symbolic headers and fixed payload lengths <= 4 B, one grouped (nesting 2); search: fixed 7-node tree shape, node identities symbolic over a 4-element pool (2 codes x 2 vendors), paths of length 1..3",
          "thorough": "same with more payload-length combinations and both tree shapes"}
OUTSIDE = ["more than 3 top-level AVPs", "messages near 64 KiB (sizes: C01 lemmas)", "search paths of length 4", "nesting > 3", "searches after the AVP list was mutated in place (msg.avps.append / typed attribute changes) - only append_avp and the avps setter are histories of the search obligations"]

REG = dict(cmds.all_commands)          # live registry, re-read every run
GL, GV = 0xf0000010, 99                 # run-time registered Grouped under vendor 0 and vendor 99
LEAF = 0xf0000001
if A.get_avp_dictionary_entry(GL, 0) is None:
    A.register(GL, "X-Group", AvpGrouped)
    A.register(GL, "X-Group-V", AvpGrouped, vendor=GV)
SYMREG = None
SYMTAB = None


def setup(p):
    global SYMREG, SYMTAB
    if not hx.SYMBOLIC:
        return
    from engine import symtab
    if SYMREG is None:
        SYMREG = symtab.SymKeyDict(cmds.all_commands)
        SYMTAB = symtab.AvpDictAbstraction()
    base.all_commands = SYMREG if p.get("symreg") else cmds.all_commands
    if p.get("symdict"):
        SYMTAB.install()
    else:
        SYMTAB.uninstall()


def ref_header(ver, length, flags, code, app, hbh, e2e):
    return bytes([ver]) + be(length, 3) + bytes([flags]) + be(code, 3) + be(app, 4) + be(hbh, 4) + be(e2e, 4)


def exp_class(code, rbit, plain):
    """reference pairing: the registered class; its <Name>Request/<Name>Answer subclass by R bit when defined"""
    C = REG.get(code)
    if C is None:
        return UndefinedMessage
    if plain:
        return C
    want = C.__name__ + ("Request" if rbit else "Answer")
    for s in C.__subclasses__():
        if s.__name__ == want:
            return s
    return C


# ----------------------------------------------------------------------------- 1. header encode, message length
def hdr_enc(ver: int, length: int, flags: int, code: int, app: int, hbh: int, e2e: int) -> bool:
    """
    pre: 0 <= ver <= 255 and 0 <= length <= 0xffffff and 0 <= flags <= 255 and 0 <= code <= 0xffffff
    pre: 0 <= app <= 0xffffffff and 0 <= hbh <= 0xffffffff and 0 <= e2e <= 0xffffffff
    post: _
    """
    hx.begin()
    try:
        h = MessageHeader(ver, length, flags, code, app, hbh, e2e)
        obs = (h.as_bytes(), h.is_request, h.is_proxyable, h.is_error, h.is_retransmit)
    except Exception as e:
        return hx.fail((ver, length, flags, code, app, hbh, e2e), "raised " + type(e).__name__)
    exp = (ref_header(ver, length, flags, code, app, hbh, e2e), flags >= 128, (flags // 64) % 2 == 1, (flags // 32) % 2 == 1, (flags // 16) % 2 == 1)
    return hx.check((ver, length, flags, code, app, hbh, e2e), obs, exp, "20-byte header layout / flag properties")


def hdr_enc_long(length: int, ver: int, flags: int, code: int) -> bool:
    """
    pre: 0x1000000 <= length <= 0xffffffffff and 0 <= ver <= 255 and 0 <= flags <= 255 and 0 <= code <= 0xffffff
    post: _
    """
    hx.begin()
    # Message.as_bytes sets header.length = 20 + len(AVP bytes) itself: any value can arise.  A total the 24-bit field
    # cannot hold must be refused - emitted, it would run into the version octet and desynchronise the stream
    try:
        h = MessageHeader(ver, 0, flags, code, 1, 2, 3)
        h.length = length
        w = h.as_bytes()
        res = ("emitted", len(w))
    except Exception as e:
        res = ("refused", 0)
    return hx.check((length, ver, flags, code), res, ("refused", 0), "a message length beyond 24 bits must not be encoded")


def _mk_avps(c1, v1, f1, p1, c2, f2, p2, k):
    """k in 0..3 AVPs: generic with vendor, generic, grouped(generic) ; returns (Avp list, reference bytes)"""
    avps, ref = [], b""
    if k >= 1:
        avps.append(Avp(c1, v1, p1, f1))
        ref += ref_avp(c1, v1, f1, p1)
    if k >= 2:
        avps.append(Avp(c2, 0, p2, f2))
        ref += ref_avp(c2, 0, f2, p2)
    if k >= 3:
        g = AvpGrouped(GL)
        g.value = [Avp(c2, 0, p2, f2), Avp(c1, v1, p1, f1)]
        avps.append(g)
        ref += ref_avp(GL, 0, 0, ref_avp(c2, 0, f2, p2) + ref_avp(c1, v1, f1, p1))
    return avps, ref


def msg_enc(ver: int, flags: int, code: int, app: int, hbh: int, e2e: int, c1: int, v1: int, f1: int, p1: bytes, c2: int, f2: int, p2: bytes) -> bool:
    """
    pre: 0 <= ver <= 255 and 0 <= flags <= 255 and 0 <= code <= 0xffffff
    pre: 0 <= app <= 0xffffffff and 0 <= hbh <= 0xffffffff and 0 <= e2e <= 0xffffffff
    pre: 0 <= c1 <= 0xffffffff and 0 <= v1 <= 0xffffffff and 0 <= f1 <= 255 and len(p1) == P["l1"]
    pre: 0 <= c2 <= 0xffffffff and 0 <= f2 <= 255 and len(p2) == P["l2"]
    post: _
    """
    hx.begin()
    inputs = (ver, flags, code, app, hbh, e2e, c1, v1, f1, p1, c2, f2, p2)
    try:
        avps, ref = _mk_avps(c1, v1, f1, p1, c2, f2, p2, P["k"])
        m = Message(MessageHeader(ver, 0, flags, code, app, hbh, e2e), avps)
        w = m.as_bytes()
        obs = (w, m.header.length)
    except Exception as e:
        return hx.fail(inputs, "raised " + type(e).__name__)
    return hx.check(inputs, obs, (ref_header(ver, 20 + len(ref), flags, code, app, hbh, e2e) + ref, 20 + len(ref)),
                    "message = header + AVPs; length field = total byte count")


# ----------------------------------------------------------------------------- 2. header decode + class dispatch
def hdr_dispatch(wire: bytes, plain: bool) -> bool:
    """
    pre: len(wire) == 20 and be_at(wire, 1, 3) == 20
    pre: P["lo"] <= be_at(wire, 5, 3) < P["hi"]
    post: _
    """
    hx.begin()
    try:
        m = Message.from_bytes(wire, plain_msg=plain)
        h = m.header
        obs_fields = (h.version, h.length, h.command_code, h.application_id, h.hop_by_hop_identifier, h.end_to_end_identifier)
    except Exception as e:
        return hx.fail((wire, plain), "raised " + type(e).__name__)
    exp_fields = (wire[0], 20, be_at(wire, 5, 3), be_at(wire, 8, 4), be_at(wire, 12, 4), be_at(wire, 16, 4))
    if not (obs_fields == exp_fields):
        return hx.check((wire, plain), obs_fields, exp_fields, "header fields != wire")
    # the registry view has decided the command code (one key, or 'unknown'): take that key for the reference pairing
    if hx.SYMBOLIC and base.all_commands is SYMREG:
        code = SYMREG.last
    else:
        code = h.command_code if h.command_code in REG else None
    rbit = wire[4] >= 128
    T = exp_class(code, bool(rbit), bool(plain))
    typed = issubclass(T, DefinedMessage) and not plain and T is not REG.get(code)
    if typed and "c02_typed_decode_forces_p" in P.get("carve", ()):
        # known finding: typed classes force the P bit their ABNF prescribes; everything else must be the wire's
        fl_obs, fl_exp = h.command_flags % 64, wire[4] % 64
        rp = (h.is_request == (wire[4] >= 128))
    else:
        fl_obs, fl_exp = h.command_flags, wire[4]
        rp = True
    return hx.check((wire, plain), (type(m).__name__, fl_obs, rp), (T.__name__, fl_exp, True), "class dispatch by command code and R bit / flags")


def repro_typed_decode_forces_p():
    """known finding: decoding a typed command rewrites the P bit"""
    w = ref_header(1, 20, 0x80, 272, 4, 1, 2)
    m = Message.from_bytes(w)
    return m.header.command_flags != 0x80, "CCR header with flags 0x80 decodes with flags %#x (%s)" % (m.header.command_flags, type(m).__name__)


def register_avp_late(vend: bool, ui: int, overwrite: bool) -> bool:
    """
    pre: 0 <= ui <= 2
    post: _
    """
    hx.begin()
    # an AVP definition registered (or replaced) at run time AFTER a message carrying that (code, vendor) has been decoded
    # and searched once: the next decode must type it as the dictionary now says, and a path through it must reach its members.
    # The inputs are choices; they are fixed first and the scenario runs natively - CrossHair switches memoisation
    # (functools.lru_cache) off while tracing, which would hide exactly the staleness this obligation is about.
    vend, overwrite = bool(hx.concretize(vend)), bool(hx.concretize(overwrite))
    u1 = [0, 1, 0xffffffff][hx.concretize_range(ui, 0, 3)]
    code = P["code"]
    vendor = 99 if vend else 0
    inputs = (vend, ui, overwrite)
    from diameter.message.avp import dictionary as D
    from diameter.message.avp import AvpOctetString
    saved0 = D.AVP_DICTIONARY.get(code)
    savedv = dict(D.AVP_VENDOR_DICTIONARY.get(99, {})) if 99 in D.AVP_VENDOR_DICTIONARY else None
    try:
        with hx.untraced():
            child = ref_avp(0xf0000003, 0, 0, u1.to_bytes(4, "big"))
            body = ref_avp(code, vendor, 0, child)
            wire = ref_header(1, 20 + len(body), 0, 999, 0, 1, 2) + body
            path = ((code, vendor), (0xf0000003, 0))
            if overwrite:
                A.register(code, "X-Early", AvpOctetString, vendor=(vendor or None))
            m0 = Message.from_bytes(wire, plain_msg=True)
            m0.find_avps(*path)
            Avp.from_bytes(body)
            try:
                Avp.new(code, vendor)
            except Exception:
                pass
            A.register(code, "X-Late-Group", AvpGrouped, vendor=(vendor or None))
            m1 = Message.from_bytes(wire, plain_msg=True)
            top = m1.avps[0]
            made = Avp.new(code, vendor)
            obs = (type(top).__name__, top.name, [a.payload for a in m1.find_avps(*path)], m1.as_bytes() == wire, type(made).__name__)
            exp = ("AvpGrouped", "X-Late-Group", [child[8:]], True, "AvpGrouped")
    except Exception as e:
        return hx.fail(inputs, "raised %s: %s" % (type(e).__name__, str(e)[:60]))
    finally:
        if saved0 is None:
            D.AVP_DICTIONARY.pop(code, None)
        else:
            D.AVP_DICTIONARY[code] = saved0
        if savedv is None:
            D.AVP_VENDOR_DICTIONARY.pop(99, None)
        else:
            D.AVP_VENDOR_DICTIONARY[99] = savedv
    return hx.check(inputs, obs, exp, "an AVP definition registered after the first decode is used by the next decode, by Avp.new and by the search")


def append_after_decode(kind: int, code: int, flags: int, pl: bytes) -> bool:
    """
    pre: 0 <= kind <= 3 and code == P["code"] and 0 <= flags <= 1 and len(pl) == 4
    post: _
    """
    hx.begin()
    # a decoded message is extended with one more AVP (append_avp) and encoded: header length and bytes must be those of the
    # received AVPs followed by the new one - for a command without python class, and for a registered command decoded
    # generically (plain_msg=True) or as its typed class
    k = hx.concretize_range(kind, 0, 4)
    inputs = (kind, code, flags, pl)
    code = P["code"]               # concrete: the search keys its cache by the rendered "<code>-<vendor>"
    try:
        d = DeviceWatchdogRequest()
        d.origin_host = b"h.r"
        d.origin_realm = b"r"
        base_wire = d.as_bytes()
        if k == 0:
            base_wire = base_wire[:5] + be(9999999, 3) + base_wire[8:]              # no python class for this command
        m = Message.from_bytes(base_wire, plain_msg=(k in (0, 1)))
        extra = Avp(code, 0, pl, flags=flags * 0x40)
        if k == 3:
            m.avps = [extra]                                                       # typed class: the setter replaces the list of custom AVPs
        else:
            m.append_avp(extra)
        out = m.as_bytes()
        found = [a.payload for a in m.find_avps((code, 0))]
        obs = (out[20:], be_at(out, 1, 3), found)
    except Exception as e:
        return hx.fail(inputs, "raised %s: %s" % (type(e).__name__, str(e)[:60]))
    tail = ref_avp(code, 0, flags * 0x40, pl)
    return hx.check(inputs, obs, (base_wire[20:] + tail, len(base_wire) + len(tail), [pl]), "an AVP appended to a decoded message is encoded after the received ones and found by the search")


def register_cmd(rbit: bool, hbh: int) -> bool:
    """
    pre: 0 <= hbh <= 0xffffffff
    post: _
    """
    hx.begin()
    code = P["code"]

    class Special(DefinedMessage):
        name = "Special-Message"

        def __post_init__(self):
            self.header.command_code = self.code
            super().__post_init__()
    Special.code = code
    saved = cmds.all_commands.get(code)
    wire = ref_header(1, 20, 128 if rbit else 0, code, 7, hbh, 9)
    try:
        before = type(Message.from_bytes(wire)).__name__
        cmds.register(Special)
        m = Message.from_bytes(wire)
        obs = (before, type(m).__name__, m.header.hop_by_hop_identifier, m.as_bytes())
    except Exception as e:
        return hx.fail((rbit, hbh), "raised " + type(e).__name__)
    finally:
        if saved is None:
            cmds.all_commands.pop(code, None)
        else:
            cmds.all_commands[code] = saved
    return hx.check((rbit, hbh), obs, (exp_class(code, bool(rbit), False).__name__, "Special", hbh, wire), "a command registered at run time is used by the decoder")


# ----------------------------------------------------------------------------- 3. generic re-encode (wire bytes primary)
def _layout(p):
    """concrete offsets of the AVPs in the wire for the spec's shape: list of (offset, header_len, payload_len, kind)"""
    k, l1, l2, hv = p["k"], p["l1"], p["l2"], p["hv"]
    out, off = [], 20
    h1 = 12 if hv else 8
    if k >= 1:
        out.append((off, h1, l1, "gen"))
        off += h1 + l1 + pad4(l1)
    if k >= 2:
        out.append((off, 8, l2, "gen"))
        off += 8 + l2 + pad4(l2)
    if k >= 3:
        inner = (8 + l2 + pad4(l2)) + (h1 + l1 + pad4(l1))
        out.append((off, 8, inner, "grp"))
        out.append((off + 8, 8, l2, "gen-inner"))
        out.append((off + 8 + 8 + l2 + pad4(l2), h1, l1, "gen-inner"))
        off += 8 + inner
    return out, off


def _wf(wire, p):
    """well-formedness of every AVP header in the layout (V flag iff vendor id, length = header + data, zero padding)"""
    lay, total = _layout(p)
    if len(wire) != total or be_at(wire, 1, 3) != total:
        return False
    for (off, hl, pl, kind) in lay:
        if (wire[off + 4] >= 128) != (hl == 12):
            return False
        if be_at(wire, off + 5, 3) != hl + pl:
            return False
        if hl == 12 and be_at(wire, off + 8, 4) == 0:
            return False
        if kind == "grp":
            if be_at(wire, off, 4) != GL:
                return False
        else:
            if be_at(wire, off, 4) < 0xf0000020:
                return False
            for q in range(pad4(pl)):
                if wire[off + hl + pl + q] != 0:
                    return False
    return True


def reencode(wire: bytes) -> bool:
    """
    pre: len(wire) == P["total"]
    pre: P["lo"] <= be_at(wire, 5, 3) < P["hi"]
    pre: _wf(wire, P)
    post: _
    """
    hx.begin()
    lay, total = _layout(P)

    def tup(off, hl, pl):
        return (be_at(wire, off, 4), be_at(wire, off + 8, 4) if hl == 12 else 0, wire[off + 4], wire[off + hl:off + hl + pl])
    try:
        m = Message.from_bytes(wire, plain_msg=True)
        got = tuple((a.code, a.vendor_id, a.flags, a.payload) for a in m.avps)
        inner = ()
        if P["k"] >= 3:
            g = m.avps[2]
            inner = (type(g).__name__,) + tuple((a.code, a.vendor_id, a.flags, a.payload) for a in g.value)
        h = m.header
        obs = (m.as_bytes(), got, inner, h.version, h.length, h.command_flags, h.command_code, h.application_id)
    except Exception as e:
        return hx.fail((wire,), "raised " + type(e).__name__)
    top = tuple(tup(off, hl, pl) for (off, hl, pl, kind) in lay if kind in ("gen", "grp"))
    einner = ()
    if P["k"] >= 3:
        einner = ("AvpGrouped",) + tuple(tup(off, hl, pl) for (off, hl, pl, kind) in lay if kind == "gen-inner")
    exp = (wire, top, einner, wire[0], total, wire[4], be_at(wire, 5, 3), be_at(wire, 8, 4))
    return hx.check((wire,), obs, exp, "generic decode: header and AVP sequence identical to the wire (recursively); re-encode reproduces the bytes")


# ----------------------------------------------------------------------------- 4. search
POOL = [(LEAF, 0), (LEAF, GV), (GL, 0), (GL, GV)]     # leaf identities 0/1, grouped identities 2/3
SHAPES = {
    "a": {"top": [0, 1, 2], "kids": {1: [3, 4], 4: [5], 2: [6]}, "grouped": {1, 2, 4}},
    "b": {"top": [0, 1, 2, 3], "kids": {0: [4], 2: [5, 6], 6: []}, "grouped": {0, 2, 6}},
}


def _ref_find(shape, nodes, path, vend):
    """reference tree walk over the harness' own tree: node indices located at `path`, in wire order"""
    out = []
    for n in nodes:
        code = GL if n in shape["grouped"] else LEAF
        if code == path[0][0] and vend[n] == path[0][1]:
            if len(path) == 1:
                out.append(n)
            elif n in shape["grouped"]:
                out += _ref_find(shape, shape["kids"].get(n, []), path[1:], vend)
    return out


def search(b0: bool, b1: bool, b2: bool, b3: bool, b4: bool, b5: bool, b6: bool, s0: bool, s1: bool, s2: bool) -> bool:
    """
    post: _
    """
    hx.begin()
    shape = SHAPES[P["shape"]]
    plen, final_grouped = P["plen"], P["final_grouped"]
    inputs = (b0, b1, b2, b3, b4, b5, b6, s0, s1, s2)
    vend = [GV if b else 0 for b in (b0, b1, b2, b3, b4, b5, b6)]          # vendor per node (0 or GV), decided by the solver
    # real AVP objects, bottom-up
    objs = {}
    for n in sorted(range(7), reverse=True):
        if n in shape["grouped"]:
            g = AvpGrouped(GL, vend[n])
            g.value = [objs[c] for c in shape["kids"].get(n, [])]
            objs[n] = g
        else:
            objs[n] = Avp(LEAF, vend[n], bytes([0xA0 + n]))
    sel = (s0, s1)
    path = [(GL, GV if sel[i] else 0) for i in range(plen - 1)] + [(GL if final_grouped else LEAF, GV if s2 else 0)]
    lc, lv = path[-1]
    path2 = path[:-1] + [(lc, 0 if s2 else GV)]

    def ids(avps):
        out = []
        for a in avps:
            out.append([n for n in range(7) if objs[n] is a][0])
        return out
    try:
        m = Message(MessageHeader(1, 0, 0x80, 0xabcdef, 1, 2, 3), [objs[n] for n in shape["top"]])
        r0 = ids(m.find_avps(*path[:-1])) if plen > 1 else []     # the prefix first: a cached prefix must not corrupt its extensions
        r1 = ids(m.find_avps(*path))
        r2 = ids(m.find_avps(*path2))          # a second, different path on the same message: the cache must not leak
        r3 = ids(m.find_avps(*path))
        r4 = ids(m.find_avps(*path[:-1])) if plen > 1 else []
    except Exception as e:
        return hx.fail(inputs, "raised " + type(e).__name__)
    e1 = _ref_find(shape, shape["top"], path, vend)
    e2 = _ref_find(shape, shape["top"], path2, vend)
    e4 = _ref_find(shape, shape["top"], path[:-1], vend) if plen > 1 else []
    return hx.check(inputs, (r0, r1, r2, r3, r4), (e4, e1, e2, e1, e4), "find_avps != reference tree walk (wire order, exact path, no cache leak between a path, its prefix and its siblings)")


def search_two_messages(v0: bool, v1: bool, deep: bool, typed: bool) -> bool:
    """
    post: _
    """
    hx.begin()
    # the same path searched on two different decoded messages, one after the other: each search sees its own message
    # (a cache that outlives or is shared between message objects shows within this one path)
    va, vb = (GV if v0 else 0), (GV if v1 else 0)
    inputs = (v0, v1, deep, typed)

    def build(tag, n):
        leaves = [Avp(LEAF, vb, bytes([tag, k])) for k in range(n)]
        if deep:
            g = AvpGrouped(GL, va)
            g.value = leaves
            body = [g]
        else:
            body = leaves
        code = 280 if typed else 0xabcdef
        return Message(MessageHeader(1, 0, 0x80, code, 1, 2, 3), body).as_bytes()
    path = ([(GL, va)] if deep else []) + [(LEAF, vb)]
    try:
        a = Message.from_bytes(build(0x41, 1), plain_msg=True)
        b = Message.from_bytes(build(0x42, 2), plain_msg=True)
        ra = [x.payload for x in a.find_avps(*path)]
        rb = [x.payload for x in b.find_avps(*path)]
        ra2 = [x.payload for x in a.find_avps(*path)]
        c = Message.from_bytes(build(0x43, 0), plain_msg=True)
        rc = [x.payload for x in c.find_avps(*path)]
    except Exception as e:
        return hx.fail(inputs, "raised " + type(e).__name__)
    return hx.check(inputs, (ra, rb, ra2, rc), ([bytes([0x41, 0])], [bytes([0x42, 0]), bytes([0x42, 1])], [bytes([0x41, 0])], []),
                    "the same path searched on several decoded messages returns each message's own AVPs")


def search_hist(b0: bool, b1: bool, b2: bool, b3: bool, b4: bool, b5: bool, b6: bool, s2: bool, alt_first: bool, late: bool) -> bool:
    """
    post: _
    """
    hx.begin()
    shape = SHAPES[P["shape"]]
    plen, final_grouped = P["plen"], P["final_grouped"]
    inputs = (b0, b1, b2, b3, b4, b5, b6, s2, alt_first, late)
    vend = [GV if b else 0 for b in (b0, b1, b2, b3, b4, b5, b6)]
    objs = {}
    for n in sorted(range(7), reverse=True):
        if n in shape["grouped"]:
            g = AvpGrouped(GL, vend[n])
            g.value = [objs[c] for c in shape["kids"].get(n, [])]
            objs[n] = g
        else:
            objs[n] = Avp(LEAF, vend[n], bytes([0xA0 + n]))
    path = [(GL, 0) for i in range(plen - 1)] + [(GL if final_grouped else LEAF, GV if s2 else 0)]

    def ids(avps):
        return [([n for n in range(7) if objs[n] is a] + [-1])[0] for a in avps]
    try:
        top = [objs[n] for n in shape["top"]]
        # history before the search under test: (a) the same path looked up in ANOTHER list through alt_list=,
        # (b) the same path looked up on the message while its last top-level AVP was not yet appended
        m = Message(MessageHeader(1, 0, 0x80, 0xabcdef, 1, 2, 3), top[:-1] if late else list(top))
        ra = None
        if alt_first:
            other = [Avp(LEAF, GV if s2 else 0, b"other")] if plen == 1 and not final_grouped else []
            ra = len(m.find_avps(*path, alt_list=other))
        early = ids(m.find_avps(*path))
        if late:
            m.append_avp(top[-1])
        r1 = ids(m.find_avps(*path))
        r_alt = ids(m.find_avps(*path, alt_list=top[:1]))       # searching another list must search that list
    except Exception as e:
        return hx.fail(inputs, "raised " + type(e).__name__)
    e_early = _ref_find(shape, shape["top"][:-1] if late else shape["top"], path, vend)
    e1 = _ref_find(shape, shape["top"], path, vend)
    e_alt = _ref_find(shape, shape["top"][:1], path, vend)
    exp_ra = None if not alt_first else (1 if plen == 1 and not final_grouped else 0)
    return hx.check(inputs, (ra, early, r1, r_alt), (exp_ra, e_early, e1, e_alt), "find_avps after an alt_list search / after append_avp != reference tree walk of the tree as it is now")


def specs(tier, seed, carve):
    q = tier == "quick"
    out = [dict(id="hdr_enc", fn="hdr_enc", params={}, timeout=120, bound="all versions, lengths (24 bit), flag octets, command codes (24 bit), 32-bit ids")]
    out.append(dict(id="hdr_enc_long", fn="hdr_enc_long", params={"opaquefmt": True}, timeout=120, bound="every total length in [2^24, 2^40) (set by Message.as_bytes from the AVP bytes), all versions, flag octets, command codes"))
    lens = [(0, 1), (3, 4)] if q else [(0, 1), (3, 4), (1, 2), (2, 0), (4, 3)]
    for k in (0, 1, 2, 3):
        for (l1, l2) in (lens if k else lens[:1]):
            out.append(dict(id="msg_enc/k%d/len%d_%d" % (k, l1, l2), fn="msg_enc", params={"k": k, "l1": l1, "l2": l2}, timeout=200 if q else 600,
                            bound="all header values; %d AVPs (symbolic codes/vendor/flags, payloads of %d and %d symbolic bytes; third AVP grouped)" % (k, l1, l2)))
    # dispatch: the 24-bit code space split into ranges (registry keys are spread over them)
    keys = sorted(REG)
    cuts = [0, 258, 275, 300, 1000, 8388608, 8388640, 8388700, 1 << 24] if q else [0, 258, 262, 272, 275, 285, 300, 320, 1000, 8388608, 8388625, 8388640, 8388660, 8388700, 8388730, 1 << 24]
    for lo, hi in zip(cuts, cuts[1:]):
        nk = sum(1 for k_ in keys if lo <= k_ < hi)
        out.append(dict(id="hdr_dispatch/%d_%d" % (lo, hi), fn="hdr_dispatch", params={"lo": lo, "hi": hi, "symreg": True}, timeout=200 if q else 600,
                        bound="every 20-byte header with command code in [%d, %d) (%d registered codes + all unknown ones), both plain_msg settings" % (lo, hi, nk)))
    import random
    rnd = random.Random(seed)
    for i in range(2 if q else 5):
        code = rnd.choice([999, rnd.randrange(1000, 8388608), 280, 272, 8388734])
        out.append(dict(id="register_cmd/%d" % i, fn="register_cmd", params={"code": code}, timeout=60, bound="run-time registration at seeded code %d (R bit, hop-by-hop id symbolic)" % code))
    out.append(dict(id="search_two_messages", fn="search_two_messages", params={}, timeout=120,
                    bound="one path (1 or 2 hops, vendors symbolic) searched on three different decoded messages in turn (command with / without python class)"))
    out.append(dict(id="append_after_decode", fn="append_after_decode", params={"code": 0xf0000100 + rnd.randrange(1 << 24)}, timeout=200,
                    bound="one AVP (seeded code >= 0xf0000100, symbolic M bit and 4 payload bytes) appended with append_avp / the avps setter to a decoded DWR: command without python class, registered command decoded with plain_msg, typed class"))
    for i in range(2 if q else 6):
        out.append(dict(id="register_avp_late/%d" % i, fn="register_avp_late", params={"code": 0xf1000000 + rnd.randrange(1 << 20) * 8 + i}, timeout=120,
                        bound="a Grouped AVP definition (seeded code, vendor 0 or 99) registered - or replacing an earlier one - after a message carrying it was decoded and searched (native run: memoisation stays switched on)"))
    for k in (0, 1, 2, 3):
        for (l1, l2) in (lens if k else lens[:1]):
            for hv in ((0, 1) if k >= 1 else (0,)):
                p = {"k": k, "l1": l1, "l2": l2, "hv": hv}
                total = _layout(p)[1]
                # the class kinds a generic decode can produce: unknown code, typed command base class, untyped command class
                for nm, lo, hi in (("unknown", 1000, 8388608), ("code272", 272, 273), ("code280", 280, 281), ("code283", 283, 284)):
                    if q and (nm != "unknown" or k == 3):
                        continue
                    out.append(dict(id="reencode/k%d/len%d_%d/v%d/%s" % (k, l1, l2, hv, nm), fn="reencode",
                                    params=dict(p, total=total, lo=lo, hi=hi, symdict=True), timeout=240 if q else 900, path_timeout=30 if q else 200,
                                    bound="every wire message of %d bytes: header (all fields; command code in [%d,%d)) + %d well-formed AVPs (unknown codes, all flag octets, symbolic payload bytes%s)" % (
                                        total, lo, hi, k, "; third AVP grouped, nesting 2" if k >= 3 else "")))
    for shape in (("a",) if q else ("a", "b")):
        for plen in (1, 2, 3):
            for fg in (0, 1):
                out.append(dict(id="search/%s/plen%d/final%s" % (shape, plen, "G" if fg else "L"), fn="search", params={"shape": shape, "plen": plen, "final_grouped": fg},
                                timeout=300 if q else 900,
                                bound="tree shape %s (7 nodes, 3 grouped, nesting 3), every vendor assignment (same code under two vendors), every path of length %d ending in a %s identity, preceded by its prefix, followed by the vendor-flipped path, the first path again and the prefix again" % (shape, plen, "grouped" if fg else "leaf")))
    for shape in (("a",) if q else ("a", "b")):
        for plen in ((1, 2) if q else (1, 2, 3)):
            for fg in (0, 1):
                out.append(dict(id="search_hist/%s/plen%d/final%s" % (shape, plen, "G" if fg else "L"), fn="search_hist", params={"shape": shape, "plen": plen, "final_grouped": fg},
                                timeout=300 if q else 900,
                                bound="tree shape %s, every vendor assignment, path of length %d; history before the search: optionally the same path searched in another list (alt_list=), optionally the same path searched before the last top-level AVP was appended (append_avp); then an alt_list search of a sub-list" % (shape, plen)))
    return out
