"""C13 - peer/connection tables and application readiness stay consistent."""
from typing import List
from engine import hx
from engine.env import STUBS, WORLD  # noqa: F401
from harness import bench as B
from harness import hist as H

PROPERTY = "C13"
P = {}
FUNCTIONS_ENCODED = ["Node._handle_connections (accept, recv, zero read, socket errors, connect completion, interrupt pipe)", "Node._add_peer_connection",
                     "Node._assign_peer_connection", "Node._connect_to_peer", "Node.close_connection_socket", "Node.remove_peer_connection",
                     "Node._flag_connection_as_ready", "Node._check_timers", "Node._reconnect_peers", "Node.receive_cer/receive_cea/receive_dpr",
                     "PeerConnection.work_read_queue/work_write_queue/close"]
ASSUMPTIONS = ["'a live connection of that peer' is read narrowly: capabilities exchange succeeded for that identity, or dialled to it",
               "quiescent point = the virtual world has settled (next select would time out)", "each connection carries at most one CER"]
BOUNDS = {"quick": "every history of depth 3 over 16 events from 3 initial states (fresh, peer ready inbound, peer ready outbound) and every history of depth 4 from 'peer ready inbound' for 4 seeded first events; 1 peer, 1 application; invariant after every step; plus readiness / takeover / foreign-CEA scenarios",
          "thorough": "every depth-4 history from the 3 initial states; depth 5 from 'peer ready inbound' for 48 seeded two-event prefixes"}
OUTSIDE = ["depth 5 exhaustive, depth > 5", "3 peers", "2 applications"]


def invariant(h):
    n = h.n
    live = h.live()
    for c in live:
        if c.state == B.PEER_CLOSED:
            return "closed connection %s still in node.connections" % c.ident
    for c in H.ALL_CONNS:
        if c in live:
            continue
        # ended connection: in none of the tables, socket closed
        if c.ident in n.connections and n.connections[c.ident] is c:
            return "ended connection in connections"
        if n.peer_sockets.get(c.ident) is not None and c.ident != "00" * 6:
            return "ended connection in peer_sockets"
        if any(v is c for v in n.socket_peers.values()):
            return "ended connection still in socket_peers"
        if any(v is c for v in n._half_ready_connections.values()):
            return "ended connection still in _half_ready_connections"
        s = h.socks.get(id(c))
        if s is not None and not s.closed:
            return "socket of an ended connection is still open"
    for p in n.peers.values():
        mine = [c for c in live if c.state != B.PEER_CLOSED and (c.host_identity == p.node_name or (c.is_sender and c.node_name == p.node_name))]
        if p.connection is not None and p.connection not in mine:
            return "peer.connection references a connection that is not a live connection of that peer"
        if p.connection is None and mine:
            return "a live connection of the peer exists but peer.connection is None"
        if p.connection is None and p.last_connect and (p.disconnect_reason is None or not p.last_disconnect):
            return "disconnected peer without disconnect reason/time"
    ready = any(p.connection is not None and p.connection.state in B.PEER_READY_STATES for p in h.b.peers)
    anyconn = any(p.connection is not None for p in h.b.peers)
    if ready and not h.app.is_ready.is_set():
        return "a configured peer is ready but the application reports not ready"
    if not anyconn and h.app.is_ready.is_set():
        return "no configured peer has a connection but the application reports ready"
    return ""


def history(ev: List[int]) -> bool:
    """
    pre: len(ev) == P["depth"] and all(0 <= e < len(H.EVENTS) for e in ev)
    pre: all(ev[i] == P["prefix"][i] for i in range(len(P["prefix"])))
    post: _
    """
    hx.begin()
    trace = []
    # the event indices are the only inputs: fix them (solver-decided bisection branches), then the history runs natively
    names = [H.EVENTS[hx.concretize_range(e, 0, len(H.EVENTS))] for e in ev]
    verdict = None
    try:
        with hx.untraced():
            h = H.Hist(init=P["init"])
            r = invariant(h)
            if r:
                verdict = ((["<init>"], r), (["<init>"], ""), "invariant broken by the initial state")
            else:
                for name in names:
                    trace.append(name)
                    h.apply(name)
                    r = invariant(h)
                    if r:
                        verdict = ((list(trace), r), (list(trace), ""), "table/readiness invariant broken at a quiescent point")
                        break
    except Exception as e:
        verdict = ((list(trace), "raised " + type(e).__name__ + ": " + str(e)[:80]), (list(trace), ""), "the I/O loop or a worker died")
    if verdict is not None:
        return hx.check((ev,), verdict[0], verdict[1], verdict[2])
    return hx.holds((ev,), True, (trace,), "")


PSTATES = ["none", "ready", "waiting_dwa", "disconnecting", "pre_ce"]
ACTIONS = ["gone", "node_close", "nothing"]


def readiness(s1: int, s2: int, victim: int, action: int, realms: int, late: bool) -> bool:
    """
    pre: 0 <= s1 < len(PSTATES) and 0 <= s2 < len(PSTATES) and 0 <= victim <= 1 and 0 <= action < len(ACTIONS) and 0 <= realms <= 2
    post: _
    """
    hx.begin()
    st = [PSTATES[hx.concretize_range(s1, 0, len(PSTATES))], PSTATES[hx.concretize_range(s2, 0, len(PSTATES))]]
    v = hx.concretize_range(victim, 0, 2)
    act = ACTIONS[hx.concretize_range(action, 0, len(ACTIONS))]
    inputs = (s1, s2, victim, action, realms, late)
    late = bool(hx.concretize(late))
    # the two peers of the application live in one realm / in two realms / in two realms the other way round
    rl = [None, [B.REALM, "partner.realm"], ["partner.realm", B.REALM]][hx.concretize_range(realms, 0, 3)]
    early = None
    try:
        # every input is fixed above (one solver-decided branch each): the scenario runs natively
        with hx.untraced():
            b = B.Bench(n_peers=2, apps=((4, "auth"),), peer_realms=rl)
            n, app = b.node, b.apps[0]
            late_app = None
            conns = [None, None]
            for i in (0, 1):
                if st[i] == "none":
                    continue
                c, s = b.accept("10.0.1.%d" % (i + 1))
                conns[i] = c
                if st[i] == "pre_ce":
                    continue
                b.inject(c, B.cer(B.PEER_HOSTS[i], hbh=10 + i, e2e=10 + i))
                B.drain(c)
                if st[i] == "waiting_dwa":
                    n.send_dwr(c)
                    B.drain(c)
                elif st[i] == "disconnecting":
                    b.inject(c, B.dpr(B.PEER_HOSTS[i], 20 + i, 20 + i))
                    B.drain(c)
            if late:
                # a second application for the same peers is registered only now, with connections already established
                late_app = B.RecApp(4, is_auth_application=True)
                n.add_application(late_app, b.peers)
                if any(cc is not None and cc.state in B.PEER_READY_STATES for cc in conns) and not late_app.is_ready.is_set():
                    early = "an application registered while one of its peers has a ready connection reports not ready"
                app = late_app
            c = conns[v]
            if early is None and c is not None and act != "nothing":
                if act == "gone":
                    s = n.peer_sockets.get(c.ident)
                    s.inq.append(b"")
                    WORLD.settle(n)
                else:
                    n.close_connection_socket(c, B.DISCONNECT_REASON_UNKNOWN)
                conns[v] = None
            ready_states = [cc is not None and cc.state in B.PEER_READY_STATES and cc.ident in n.connections for cc in conns]
            anyconn = [p.connection is not None for p in b.peers]
            obs = app.is_ready.is_set()
    except Exception as e:
        return hx.fail(inputs, "raised %s: %s" % (type(e).__name__, str(e)[:80]))
    if early is not None:
        return hx.check(inputs, ("not ready",), ("ready",), early)
    if any(ready_states):
        return hx.check(inputs, (obs,), (True,), "a configured peer has a ready connection (READY or awaiting a DWA) but the application reports not ready")
    if not any(anyconn):
        return hx.check(inputs, (obs,), (False,), "no configured peer has a connection but the application reports ready")
    return hx.holds(inputs, True, (obs,), "")


def takeover(s1: int, s2: int, action: int, which: bool) -> bool:
    """
    pre: 1 <= s1 <= 3 and 1 <= s2 <= 3 and 0 <= action <= 1
    post: _
    """
    hx.begin()
    st = [(PSTATES + ["out_pre_cea"])[hx.concretize_range(s1, 1, 4) if s1 != 3 else 5], PSTATES[hx.concretize_range(s2, 1, 4)]]
    act = ACTIONS[hx.concretize_range(action, 0, 2)]
    inputs = (s1, s2, action, which)
    try:
        b = B.Bench(n_peers=1, apps=((4, "auth"),))
        n, app, p = b.node, b.apps[0], b.peers[0]
        conns = []
        for i in (0, 1):
            if i == 0 and st[0] == "out_pre_cea":
                # simultaneous open: our own connection to the peer is still waiting for its CEA
                c = b.dial(p, "ok")
                B.drain(c)
                conns.append(c)
                continue
            c, s = b.accept("10.0.1.1")
            b.inject(c, B.cer(B.PEER_HOSTS[0], hbh=10 + i, e2e=10 + i))
            B.drain(c)
            conns.append(c)
        ready_before = app.is_ready.is_set()
        if any(x.state in B.PEER_READY_STATES for x in conns) and not ready_before:
            return hx.check(inputs, ("not ready",), ("ready",), "a configured peer has a ready connection but the application reports not ready (before any loss)")
        for i in (0, 1):
            if st[i] == "waiting_dwa":
                n.send_dwr(conns[i])
                B.drain(conns[i])
            elif st[i] == "disconnecting":
                b.inject(conns[i], B.dpr(B.PEER_HOSTS[0], 20 + i, 20 + i))
                B.drain(conns[i])
        v = 1 if which else 0
        c = conns[v]
        other = conns[1 - v]
        if act == "gone":
            n.peer_sockets.get(c.ident).inq.append(b"")
            WORLD.settle(n)
        else:
            n.close_connection_socket(c, B.DISCONNECT_REASON_UNKNOWN)
        other_ready = other.state in B.PEER_READY_STATES and other.ident in n.connections
        obs = (p.connection is other, app.is_ready.is_set())
    except Exception as e:
        return hx.fail(inputs, "raised %s: %s" % (type(e).__name__, str(e)[:80]))
    if other_ready:
        return hx.check(inputs, obs, (True, True), "a ready connection of the peer is still open but peer.connection does not reference it / the application is not ready")
    return hx.holds(inputs, p.connection is None or p.connection is other, obs, "peer.connection references a connection that has ended")


def unrelated_loss(s1: int, s2: int, what: int) -> bool:
    """
    pre: 0 <= s1 <= 3 and 0 <= s2 <= 1 and 0 <= what <= 2
    post: _
    """
    hx.begin()
    # peer 1 holds two connections - the registered one A (ready / awaiting a DWA / dialled and awaiting its CEA / dialled and
    # still connecting) and an inbound one B that is ready (or awaiting a DWA); then a connection that has nothing to do with
    # the peer ends (a stranger before its CER / peer 2's ready connection / a refused stranger).  The application of peer 1
    # must keep reporting ready.
    a_state = ["ready", "waiting_dwa", "out_pre_cea", "out_connecting"][hx.concretize_range(s1, 0, 4)]
    b_state = ["ready", "waiting_dwa"][hx.concretize_range(s2, 0, 2)]
    which = ["stranger_pre_cer", "peer2_ready", "stranger_refused"][hx.concretize_range(what, 0, 3)]
    inputs = (s1, s2, what)
    try:
        with hx.untraced():
            h = H.Hist(init="fresh", persistent=False, n_peers=2)
            b, n, app, p = h.b, h.n, h.app, h.p
            if a_state == "out_connecting":
                WORLD.connect_plan.append("pending")
                n._connect_to_peer(p)
                ca = h.newest()
                n.peer_sockets.get(ca.ident).connect_plan = "pending"
                h.settle()
            elif a_state == "out_pre_cea":
                h.ev_dial("ok")
            else:
                h.ev_accept()
                h.ev_cer(B.PEER_HOSTS[0], [4])
                if a_state == "waiting_dwa":
                    n.send_dwr(h.newest())
                    h.settle()
            h.ev_accept()
            h.ev_cer(B.PEER_HOSTS[0], [4])
            cb = h.newest()
            if b_state == "waiting_dwa":
                n.send_dwr(cb)
                h.settle()
            b_ready = cb.state in B.PEER_READY_STATES and cb.ident in n.connections
            before = app.is_ready.is_set()
            h.ev_accept()
            other = h.newest()
            if which == "peer2_ready":
                h.ev_cer(B.PEER_HOSTS[1], [4])
            elif which == "stranger_refused":
                h.ev_cer("stranger.local.realm", [4])
            if other.ident in n.connections:
                h.ev_gone(other)
            still = cb.state in B.PEER_READY_STATES and cb.ident in n.connections
            obs = (b_ready, before, still, app.is_ready.is_set())
    except Exception as e:
        return hx.fail(inputs, "raised %s: %s" % (type(e).__name__, str(e)[:80]))
    if not (b_ready and still):
        return hx.holds(inputs, True, obs, "")          # (B did not become / stay ready: election or refusal - nothing to demand)
    return hx.check(inputs, obs, (True, True, True, True), "a connection of the peer is ready but its application reports not ready after an unrelated connection ended")


def foreign_cea(loss: int) -> bool:
    """
    pre: 0 <= loss <= 1
    post: _
    """
    hx.begin()
    ls = hx.concretize_range(loss, 0, 2)
    try:
        h = H.Hist(init="fresh", persistent=False, n_peers=2)
        n = h.n
        h.ev_dial("ok")                                   # we dial peer1 ...
        c = h.newest()
        h._push(c, B.cea(B.PEER_HOSTS[1], hbh=5, e2e=5).as_bytes())      # ... and the CEA names peer2 as its Origin-Host
        r0 = invariant(h)
        referenced = [p for p in h.b.peers if p.connection is c]
        if ls == 0:
            h.ev_gone(c)
        else:
            n.close_connection_socket(c, B.DISCONNECT_REASON_UNKNOWN)
            h.settle()
        r1 = invariant(h)
        # every peer whose connection attribute referenced the connection has had its connection removed: reason and time set
        for p in referenced:
            if not r1 and p.connection is None and (p.disconnect_reason is None or not p.last_disconnect):
                r1 = "the connection of %s has been removed but its disconnect reason/time are not set" % p.node_name
    except Exception as e:
        return hx.fail((loss,), "raised %s: %s" % (type(e).__name__, str(e)[:80]))
    return hx.check((loss,), (r1,), ("",), "after the loss of a connection no peer may keep referencing it, and every peer that referenced it records the loss")


def specs(tier, seed, carve):
    import random
    q = tier == "quick"
    rnd = random.Random(seed)
    out = [dict(id="readiness", fn="readiness", params={}, timeout=600,
                bound="2 peers configured for one application (both in the node's realm / one of them in another realm; the application registered before or after the connections were established), each in {no connection, ready, awaiting DWA, disconnecting, pre-CE}; then one of them loses its connection (peer gone / node-initiated close / nothing)")]
    out.append(dict(id="unrelated_loss", fn="unrelated_loss", params={}, timeout=300,
                    bound="one peer with two connections (registered one ready / awaiting DWA / dialled awaiting CEA / dialled still connecting; second one inbound ready or awaiting DWA), then an unrelated connection (stranger before CER, refused stranger, the other peer's ready connection) ends"))
    out.append(dict(id="foreign_cea", fn="foreign_cea", params={}, timeout=300,
                    bound="two configured peers; the connection dialled to peer1 is answered by a CEA carrying peer2's identity, then lost (peer gone / node close)"))
    out.append(dict(id="takeover", fn="takeover", params={}, timeout=600,
                    bound="one peer with two connections: the first READY, awaiting a DWA, or our own dialled connection still awaiting its CEA (simultaneous open); the second READY, awaiting a DWA or disconnecting; either of them is lost (peer gone / node close)"))
    ne = len(H.EVENTS)
    # histories run natively once the solver has fixed the event indices (~25 ms per history): depth 3 exhaustively from every
    # initial state and depth 4 exhaustively from 'peer ready inbound' already in the quick tier
    for init in ("fresh", "ready_inbound", "ready_outbound"):
        out.append(dict(id="history/%s/d3" % init, fn="history", params={"init": init, "depth": 3, "prefix": []}, timeout=1500,
                        bound="every 3-event history over %d events from initial state '%s'" % (ne, init)))
        if q and init != "ready_inbound":
            continue
        # quick: a seeded quarter of the first events (the wire-level histories of harness/uni.py add breadth instead)
        for f in (sorted(rnd.sample(range(ne), 4)) if q else range(ne)):
            out.append(dict(id="history/%s/d4/%s" % (init, H.EVENTS[f]), fn="history", params={"init": init, "depth": 4, "prefix": [f]}, timeout=1500,
                            bound="every 4-event history starting with %s from initial state '%s'" % (H.EVENTS[f], init)))
    if not q:
        for f in range(ne):
            for g in rnd.sample(range(ne), 3):
                out.append(dict(id="history/ready_inbound/d5/%s/%s" % (H.EVENTS[f], H.EVENTS[g]), fn="history",
                                params={"init": "ready_inbound", "depth": 5, "prefix": [f, g]}, timeout=3000,
                                bound="every 5-event history starting with %s, %s from 'peer ready inbound'" % (H.EVENTS[f], H.EVENTS[g])))
    return out


# ---------------------------------------------------------------------------------------------------------------------
# wire-level histories with this property's monitor (harness/uni.py): bytes in, bytes out, reference model of the far ends
from typing import List as _List  # noqa: E402
from harness import uni as U  # noqa: E402


def uni_history(ev: _List[int]) -> bool:
    """
    pre: len(ev) == P["depth"] and all(0 <= e < len(U.EVENTS) for e in ev)
    pre: all(ev[i] == P["prefix"][i] for i in range(len(P["prefix"])))
    post: _
    """
    return U.history_body(ev, P)


_own_specs = specs


def specs(tier, seed, carve):  # noqa: F811
    return _own_specs(tier, seed, carve) + U.specs(PROPERTY, tier, seed)


FUNCTIONS_ENCODED = list(FUNCTIONS_ENCODED) + U.FUNCTIONS
BOUNDS = {k: v + "; " + U.BOUNDS[k] for k, v in BOUNDS.items()}
OUTSIDE = list(OUTSIDE) + U.OUTSIDE
