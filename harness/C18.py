"""C18 - graceful shutdown: DPR to ready peers, drain, refuse newcomers, stop all threads."""
import errno
import types
from engine import hx
from engine.env import STUBS, WORLD, VSock  # noqa: F401
from harness import bench as B
from harness import hist as H

PROPERTY = "C18"
P = {}
FUNCTIONS_ENCODED = ["Node.stop", "Node._handle_connections (stop branch, interrupt pipe, CLOSING handling)", "Node.send_dpr", "Node.receive_dpa",
                     "Node._add_peer_connection (_stopping guard)", "Node._check_timers (_stopping guard)", "Node._reconnect_peers (_stopping guard)",
                     "Node.close_connection_socket", "PeerConnection.close / work_write_queue / work_read_queue", "Application.stop"]
ASSUMPTIONS = ["time.sleep(1) inside Node.stop is the scheduler hook: each sleep = one second of virtual time, the world settles, the scripted peers react",
               "StoppableThread.join of the I/O thread = run its body to completion with the stop flag set (a thread is its body function); real OS joins/timeouts are not modelled"]
BOUNDS = {"quick": "(native after concretisation) connection A of peer1 in {outbound connecting, inbound awaiting CER, outbound awaiting CEA, ready, awaiting DWA, disconnecting}; connection B in {none, second ready connection of peer1, peer2 ready, peer2 awaiting CER}; each ready peer answers the DPR promptly / late / never / just closes; a new inbound connection and a persistent-peer reconnect deadline inside the window; force in {False, True}; wait timeout in {2, 6}; newcomer and reconnect deadline independently; the I/O thread scheduled eagerly after the first DPR or not",
          "thorough": "same"}
OUTSIDE = ["3+ connections", "real joins/timeouts of OS threads"]

A_STATES = ["out_connecting", "in_pre_cer", "out_pre_cea", "ready", "waiting_dwa", "disconnecting"]
B_KINDS = ["none", "second_of_peer1", "peer2_ready", "peer2_pre_cer", "peer2_cer_during_stop"]
REACT = ["dpa_prompt", "dpa_late", "never", "close", "dwa_then_dpa", "dpa_dwa_same_read"]


class ResetSock(VSock):
    """an accepted socket whose far end has already reset the connection (connect, then close with SO_LINGER 0: a health probe,
    a port scan): the kernel has forgotten the peer"""

    def getpeername(self):
        raise OSError(errno.ENOTCONN, "Transport endpoint is not connected")

    def recv(self, n, flags=0):
        raise OSError(errno.ECONNRESET, "Connection reset by peer")

    def send(self, b, flags=0):
        raise OSError(errno.EPIPE, "Broken pipe")


def scenario(sa: int, kb: int, ra: int, rb: int, force: bool, wt: int, newcomer: int, deadline: bool, eager_io: bool) -> bool:
    """
    pre: sa == P["sa"] and kb == P["kb"] and 0 <= ra < len(REACT) and 0 <= rb < len(REACT) and wt in (2, 6) and 0 <= newcomer <= 2
    pre: (not force) or (ra == 0 and rb == 0)
    pre: P["sa"] in (3, 4) or ra == 0
    pre: P["kb"] in (1, 2) or rb == 0
    pre: (not eager_io) or (not force and P["kb"] in (1, 2) and P["sa"] in (3, 4))
    post: _
    """
    hx.begin()
    inputs = (sa, kb, ra, rb, force, wt, newcomer, deadline, eager_io)
    sa_n = A_STATES[P["sa"]]
    kb_n = B_KINDS[P["kb"]]
    react = [REACT[hx.concretize_range(ra, 0, len(REACT))], REACT[hx.concretize_range(rb, 0, len(REACT))]]
    W = 2 if wt == 2 else 6
    # every input is a choice: fix the remaining ones (one solver-decided branch each), then the shutdown runs natively
    force, newcomer, deadline, eager_io = bool(hx.concretize(force)), hx.concretize_range(newcomer, 0, 3), bool(hx.concretize(deadline)), bool(hx.concretize(eager_io))
    with hx.untraced():
        obs = _scenario_body(sa_n, kb_n, react, W, force, newcomer, deadline, eager_io)
    return hx.check(inputs, obs, ("",), "graceful shutdown")


def _scenario_body(sa_n, kb_n, react, W, force, newcomer, deadline, eager_io):
    import diameter.node._helpers as helpers
    saved_join = helpers.StoppableThread.join
    try:
        h = H.Hist(init="fresh", persistent=bool(deadline), n_peers=2)
        b, n = h.b, h.n
        p1, p2 = b.peers
        p1.reconnect_wait = 3
        conns = []           # (conn, sock, ready?)

        def sock_of(c):
            return n.peer_sockets.get(c.ident)
        # ---- connection A
        if sa_n == "out_connecting":
            WORLD.connect_plan.append("pending")
            n._connect_to_peer(p1)
            c = h.newest()
            sock_of(c).connect_plan = "pending"
            h.settle()
        elif sa_n == "in_pre_cer":
            h.ev_accept()
            c = h.newest()
        elif sa_n == "out_pre_cea":
            h.ev_dial("ok")
            c = h.newest()
        else:
            h.ev_accept()
            h.ev_cer(B.PEER_HOSTS[0], [4])
            c = h.newest()
            if sa_n == "waiting_dwa":
                n.send_dwr(c)
                h.settle()
            elif sa_n == "disconnecting":
                h._push(c, B.dpr(B.PEER_HOSTS[0], 77, 77).as_bytes())
        conns.append(c)
        # ---- connection B
        if kb_n == "second_of_peer1":
            h.ev_accept()
            h.ev_cer(B.PEER_HOSTS[0], [4])
            conns.append(h.newest())
        elif kb_n == "peer2_ready":
            h.ev_accept()
            h.ev_cer(B.PEER_HOSTS[1], [4])
            conns.append(h.newest())
        elif kb_n in ("peer2_pre_cer", "peer2_cer_during_stop"):
            h.ev_accept()
            conns.append(h.newest())
            if kb_n == "peer2_cer_during_stop":
                p2.idle_timeout = 1           # whatever stop() makes of a CER that arrives now: no watchdog may follow while stopping
        socks = [sock_of(c) for c in conns]
        for s in socks:
            if s is not None:
                s.out = b""
        was_ready = [c.state in B.PEER_READY_STATES for c in conns]
        if deadline:
            # peer1 lost an earlier connection: its reconnect deadline falls inside the shutdown window
            if p1.connection is None:
                p1.last_disconnect = WORLD.now - 1
                p1.disconnect_reason = B.DISCONNECT_REASON_GONE_AWAY
        WORLD.dialled.clear()
        log = [[] for _ in conns]
        closed_at = [None for _ in conns]
        tick = [0]
        new_sock = [None]

        def collect():
            for i, s in enumerate(socks):
                if s is None:
                    continue
                for m in WORLD.frames(s.out):
                    log[i].append((tick[0], m.header.command_code, bool(m.header.is_request), getattr(m, "disconnect_cause", None)))
                    if m.header.command_code == 282 and m.header.is_request:
                        r = react[i] if i < 2 else "never"
                        if r == "dwa_then_dpa":
                            s.inq.append(B.dwa(B.PEER_HOSTS[0], 4711, 4711).as_bytes())      # the answer to an outstanding DWR crosses the DPR
                            pending.append((tick[0], i, m))
                        elif r == "dpa_dwa_same_read":
                            # the DPA and, right behind it in the same segment, the overdue answer to an earlier DWR
                            s.inq.append(B.dpa(B.PEER_HOSTS[0], m.header.hop_by_hop_identifier, m.header.end_to_end_identifier).as_bytes()
                                         + B.dwa(B.PEER_HOSTS[0], 4711, 4711).as_bytes())
                        elif r in ("dpa_prompt", "dpa_late"):
                            pending.append((tick[0] + (0 if r == "dpa_prompt" else 2), i, m))
                        elif r == "close":
                            s.inq.append(b"")
                s.out = b""
                if s.closed and closed_at[i] is None:
                    closed_at[i] = tick[0]
        pending = []

        def on_sleep(secs):
            tick[0] += 1
            WORLD.now += secs
            h.settle()
            collect()
            for item in list(pending):
                t, i, m = item
                if t <= tick[0] and not socks[i].closed:
                    socks[i].inq.append(B.dpa(B.PEER_HOSTS[0], m.header.hop_by_hop_identifier, m.header.end_to_end_identifier).as_bytes())
                    pending.remove(item)
            if kb_n == "peer2_cer_during_stop" and tick[0] == 1 and not socks[1].closed:
                socks[1].inq.append(B.cer(B.PEER_HOSTS[1], hbh=901, e2e=901).as_bytes())
            if newcomer and tick[0] == 1:
                ns = VSock(WORLD) if newcomer == 1 else ResetSock(WORLD)        # (2: the newcomer has already reset its end)
                new_sock[0] = ns
                b.listener.backlog.append(ns)
            h.settle()
            collect()
        WORLD.on_sleep = on_sleep
        # a legal schedule: the I/O thread (and the peers) run between two statements of stop(), e.g. right after a DPR
        # has been queued - the world settles, prompt DPAs come back and connections are removed while stop() still iterates
        real_add = B.PeerConnection.add_out_msg
        busy = [False]

        def add_out_msg(self_, m):
            real_add(self_, m)
            if eager_io and n._stopping and not busy[0] and m.header.command_code == 282 and m.header.is_request:
                busy[0] = True
                try:
                    h.settle()
                    collect()
                    for item in list(pending):
                        t_, i_, m_ = item
                        if t_ <= tick[0] and not socks[i_].closed:
                            socks[i_].inq.append(B.dpa(B.PEER_HOSTS[0], m_.header.hop_by_hop_identifier, m_.header.end_to_end_identifier).as_bytes())
                            pending.remove(item)
                    h.settle()
                    collect()
                finally:
                    busy[0] = False
        B.PeerConnection.add_out_msg = add_out_msg

        def join(self_, timeout=None):
            if self_ is n._connection_thread:
                n._handle_connections(types.SimpleNamespace(is_stopped=True))
        helpers.StoppableThread.join = join
        n.stop(wait_timeout=W, force=bool(force))
        collect()
        why = ""
        for i, c in enumerate(conns):
            dprs = [x for x in log[i] if x[1] == 282 and x[2]]
            if was_ready[i] and not force:
                if len(dprs) != 1 or dprs[0][3] != 0:
                    why = why or "ready connection %d got DPRs %r (expected exactly one, cause REBOOTING)" % (i, dprs)
            elif dprs:
                why = why or "connection %d (not ready or forced stop) got a DPR" % i
            if any(x[1] == 280 and x[2] for x in log[i]):
                why = why or "a watchdog request was sent while stopping"
            if socks[i] is not None and not socks[i].closed:
                why = why or "socket of connection %d still open after stop()" % i
        if not force:
            prompt_all = all((not was_ready[i]) or react[i] in ("dpa_prompt", "dwa_then_dpa", "dpa_dwa_same_read") for i in range(len(conns))) and all(was_ready) and not newcomer
            if prompt_all and conns and tick[0] >= W:
                why = why or "all peers answered the DPR at once but stop() waited the whole timeout (%d ticks)" % tick[0]
        if new_sock[0] is not None:
            if not new_sock[0].closed:
                why = why or "connection arriving during shutdown was not closed"
            if new_sock[0].out:
                why = why or "connection arriving during shutdown was served"
        if WORLD.dialled:
            why = why or "a peer was dialled while stopping"
        if not b.listener.closed:
            why = why or "listening socket still open"
        if n.connections:
            why = why or "connections left in the table"
        alive = [t for t in WORLD.started if not t.is_stopped]
        if alive or not n._connection_thread.is_stopped or not n._stat_collect_thread.is_stopped:
            why = why or "%d worker threads not told to stop" % len(alive)
        obs = (why,)
    except Exception as e:
        obs = ("raised %s: %s" % (type(e).__name__, str(e)[:100]),)
    finally:
        helpers.StoppableThread.join = saved_join
        try:
            B.PeerConnection.add_out_msg = real_add
        except NameError:
            pass
    return obs


def specs(tier, seed, carve):
    q = tier == "quick"
    out = []
    for sa in range(len(A_STATES)):
        for kb in range(len(B_KINDS)):
            out.append(dict(id="scenario/%s/%s" % (A_STATES[sa], B_KINDS[kb]), fn="scenario", params={"sa": sa, "kb": kb, "quick": q}, timeout=1500 if q else 6000,
                            bound="connection A %s, B %s; each ready peer answers the DPR %s; force; %s" % (
                                A_STATES[sa], B_KINDS[kb], REACT, "wait timeout {2, 6}; newcomer; reconnect deadline")))
    return out
