"""C12 - disconnect-peer handling and reconnect policy."""
from typing import List
from engine import hx
from engine.env import STUBS, WORLD  # noqa: F401
from harness import bench as B
from harness.bench import drain
from harness import hist as H
from harness.C07 import mk as mkmsg, KINDS as MSG_KINDS

PROPERTY = "C12"
P = {}
FUNCTIONS_ENCODED = ["Node.receive_dpr", "Node.receive_dpa", "Node.send_dpr", "Node._reconnect_peers", "Node._connect_to_peer", "Node._add_peer_connection (duplicate guard)",
                     "Node.route_request / route_answer", "Node._handle_connections", "Node._check_timers", "Peer.disconnected_since", "PeerConnection.reset_last_dwa / reset_last_dwr"]
ASSUMPTIONS = ["virtual integer clock", "connect outcomes are scripted by the virtual socket layer (refused / in progress then ok / in progress then error / immediate)"]
BOUNDS = {"quick": "DPR: both ready sub-states x inbound/outbound x a pending request, then every message kind afterwards; reconnect decision: all values of persistent, always_reconnect, reconnect_wait 1..60, elapsed 0..200, all 10 disconnect reasons + None, stopping, has-connection, with/without addresses; histories of depth 3 over 12 events with a persistent peer and with a non-persistent peer",
          "thorough": "histories of depth 4"}
OUTSIDE = ["more than 4 reconnect cycles", "SCTP (module absent: TCP branch only)"]
PEER = B.PEER_HOSTS[0]
REASONS = [None, B.DISCONNECT_REASON_DPR, B.DISCONNECT_REASON_NODE_SHUTDOWN, B.DISCONNECT_REASON_CLEAN_DISCONNECT, B.DISCONNECT_REASON_SOCKET_FAIL,
           B.DISCONNECT_REASON_GONE_AWAY, B.DISCONNECT_REASON_FAILED_CONNECT, B.DISCONNECT_REASON_FAILED_CONNECT_CE, B.DISCONNECT_REASON_CER_REJECTED,
           B.DISCONNECT_REASON_DWA_TIMEOUT, B.DISCONNECT_REASON_UNKNOWN]


def _routable(b, c, app):
    n = b.node
    try:
        conn, _ = n.route_request(app, B.ccr(B.NODE_HOST, 0, 999))
        r = conn is c
    except B.NotRoutable:
        r = False
    n._app_waiting_answer.clear()
    return r


# ----------------------------------------------------------------------------- 1. DPR
def dpr_step(outbound: bool, waiting: bool, pending: bool, after: int) -> bool:
    """
    pre: -1 <= after < len(MSG_KINDS) and (after < 0 or MSG_KINDS[after] != "cer")
    post: _
    """
    hx.begin()
    a = hx.concretize_range(after, -1, len(MSG_KINDS))
    inputs = (outbound, waiting, pending, after)
    try:
        b = B.Bench(n_peers=1)
        n, p, app = b.node, b.peers[0], b.apps[0]
        if outbound:
            c = b.dial(p, "ok")
            drain(c)
            b.inject(c, B.cea(PEER))
        else:
            c, s = b.make_ready(p)
        drain(c)
        if pending:
            b.inject(c, B.ccr(PEER, 41, 42))
        if waiting:
            n.send_dwr(c)
        drain(c)
        was = _routable(b, c, app)
        b.inject(c, B.dpr(PEER, 31, 32))
        out = B.summarize(drain(c))
        if a >= 0:
            try:
                b.inject(c, mkmsg(MSG_KINDS[a], 61, 62))
            except Exception:
                pass
            drain(c)
        now = _routable(b, c, app)
        ans = "n/a"
        if pending:
            try:
                app.send_answer(app.generate_answer(app.requests[0], result_code=2001))
                ans = "sent"
            except B.NotRoutable:
                ans = "NotRoutable"
        obs = (was, [(x[0], x[1], x[3], x[4], x[5]) for x in out], now, ans, len(drain(c)), p.disconnect_reason)
    except Exception as e:
        return hx.fail(inputs, "raised %s: %s" % (type(e).__name__, str(e)[:80]))
    exp = (True, [(False, 282, 31, 32, 2001)], False, "NotRoutable" if pending else "n/a", 0, B.DISCONNECT_REASON_DPR)
    return hx.check(inputs, obs, exp, "DPR: answered 2001; afterwards (a second CER excepted: unspecified) the connection is not offered for routing (whatever arrives next) and the reason records the DPR")


# ----------------------------------------------------------------------------- 2. reconnect decision
def reconnect_decision(persistent: bool, always: bool, wait: int, elapsed: int, ri: int, stopping: bool, has_conn: bool, addrs: bool, ever: bool) -> bool:
    """
    pre: 1 <= wait <= 60 and 0 <= elapsed <= 200 and 0 <= ri < len(REASONS)
    post: _
    """
    hx.begin()
    reason = REASONS[hx.concretize_range(ri, 0, len(REASONS))]
    inputs = (persistent, always, wait, elapsed, ri, stopping, has_conn, addrs, ever)
    try:
        b = B.Bench(n_peers=1, with_ips=bool(addrs))
        n, p = b.node, b.peers[0]
        p.persistent = bool(persistent)
        p.always_reconnect = bool(always)
        p.reconnect_wait = wait
        if has_conn:
            c, s = b.make_ready(p)
            drain(c)
        t0 = WORLD.now
        if ever:
            p.last_disconnect = t0
            p.disconnect_reason = reason
        WORLD.now = t0 + elapsed
        n._stopping = bool(stopping)
        WORLD.dialled.clear()
        n._reconnect_peers()
        dialled = len(WORLD.dialled)
        outb = sum(1 for x in n.connections.values() if x.is_sender)
    except Exception as e:
        return hx.fail(inputs, "raised %s: %s" % (type(e).__name__, str(e)[:80]))
    should = (bool(persistent) and not has_conn and bool(ever) and elapsed >= wait and not (reason == B.DISCONNECT_REASON_DPR and not always)
              and not stopping and bool(addrs))
    return hx.check(inputs, (dialled, outb), (1 if should else 0, 1 if should else 0),
                    "a peer is dialled iff persistent, without a connection, its reconnect wait has elapsed, not (lost after a DPR and not always-reconnect), and the node is not stopping")


LOSSES = ["gone", "socket_error", "dpr_then_gone", "dwa_timeout", "node_close", "cea_rejected"]


def reconnect_after_loss(loss: int, always: bool, wait: int, e1: int, prior: bool, dpr_on_second: bool) -> bool:
    """
    pre: 0 <= loss < len(LOSSES) and 1 <= wait <= 60 and 0 <= e1 <= 100
    pre: (not dpr_on_second) or (loss != 5 and loss != 2)
    post: _
    """
    hx.begin()
    ls = LOSSES[hx.concretize_range(loss, 0, len(LOSSES))]
    inputs = (loss, always, wait, e1, prior, dpr_on_second)
    try:
        h = H.Hist(init="fresh", persistent=True)
        n, p = h.n, h.p
        p.always_reconnect = bool(always)
        p.reconnect_wait = wait
        n.idle_timeout = 100000
        if prior:
            # an earlier, unrelated loss long ago
            h.ev_dial("ok")
            h.ev_cea(2001)
            h.ev_gone(h.newest())
            WORLD.now += 1000
        h.ev_dial("ok")
        if ls != "cea_rejected":
            h.ev_cea(2001)
        c = h.newest()
        if c is None:
            return hx.fail(inputs, "bench: no outbound connection")
        if dpr_on_second:
            # the peer had opened a second connection and closed it cleanly (DPR/DPA) while ours stayed up
            h.ev_accept()
            h.ev_cer(PEER, [4])
            c2 = h.newest()
            if c2 is not c:
                h._push(c2, B.dpr(PEER, 771, 771).as_bytes())
                h.ev_gone(c2)
        if ls == "gone":
            h.ev_gone(c)
        elif ls == "socket_error":
            h.ev_err(c)
        elif ls == "dpr_then_gone":
            h.ev_dpr()
            h.ev_gone(c)
        elif ls == "dwa_timeout":
            n.send_dwr(c)
            h.settle()
            n.close_connection_socket(c, B.DISCONNECT_REASON_DWA_TIMEOUT)
            h.settle()
        elif ls == "node_close":
            n.close_connection_socket(c, B.DISCONNECT_REASON_UNKNOWN)
            h.settle()
        else:
            h.ev_cea(5010)
        lost_at = WORLD.now
        WORLD.dialled.clear()
        WORLD.now = lost_at + e1
        WORLD.connect_plan.append("refused")          # the attempt itself fails at once: only the decision is observed
        n._reconnect_peers()
        obs = (len(WORLD.dialled), p.connection is None)
    except Exception as e:
        return hx.fail(inputs, "raised %s: %s" % (type(e).__name__, str(e)[:80]))
    should = e1 >= wait and not (ls == "dpr_then_gone" and not always)
    return hx.check(inputs, obs, (1 if should else 0, True), "after a real loss a persistent peer is dialled again iff its reconnect wait (counted from that loss) has elapsed, unless the loss followed a DPR and it is not always-reconnect")


# ----------------------------------------------------------------------------- 3. histories: never two self-initiated connections; non-persistent peers never dialled
EVENTS = ["accept", "cer_known", "cea_ok", "cea_reject", "dpr_old", "gone_new", "gone_old", "err_new", "tick5", "tick31", "close_old", "conn_result_flip"]


SPELL = [lambda x: x, lambda x: x.title(), lambda x: x.upper()]


def redial_pending(cfg: int, ticks: int, refused: bool) -> bool:
    """
    pre: 0 <= cfg <= 2 and 1 <= ticks <= 3
    post: _
    """
    hx.begin()
    # a persistent peer (configured in lower / Capitalised / UPPER case) loses its connection; the reconnect wait elapses; the
    # node dials; the CEA is slow (or the dial is refused and the wait starts again): however many timer rounds pass meanwhile,
    # the node never holds two connections of its own to the peer, and a refused dial is not repeated before the wait is over
    cfg, ticks = hx.concretize_range(cfg, 0, 3), hx.concretize_range(ticks, 1, 4)
    refused = bool(hx.concretize(refused))
    inputs = (cfg, ticks, refused)
    saved = B.PEER_HOSTS[0]
    try:
        with hx.untraced():
            B.PEER_HOSTS[0] = SPELL[cfg](saved)
            h = H.Hist(init="fresh", persistent=True)
            n, p = h.n, h.p
            p.reconnect_wait = 5
            n.cea_timeout = 100000
            n.idle_timeout = 100000
            h.ev_dial("ok")
            h.ev_cea(2001)
            h.ev_gone(h.newest())
            WORLD.dialled.clear()
            if refused:
                WORLD.connect_plan.append("refused")
            h.ev_tick(6)                               # the wait (5 s) is over: one dial
            first = len(WORLD.dialled)
            for _ in range(ticks):
                h.ev_tick(1)                           # further timer rounds within the next wait / while the CEA is outstanding
            mine = [sk for (t, a, sk) in WORLD.dialled if not sk.closed]
            obs = (first, len(WORLD.dialled), len(mine))
            exp = (1, 1, 0 if refused else 1)
    except Exception as e:
        return hx.fail(inputs, "raised %s: %s" % (type(e).__name__, str(e)[:80]))
    finally:
        B.PEER_HOSTS[0] = saved
    return hx.check(inputs, obs, exp, "one dial when the reconnect wait is over, none while that connection is being established or the next wait runs")


def history(ev: List[int]) -> bool:
    """
    pre: len(ev) == P["depth"] and all(0 <= e < len(EVENTS) for e in ev)
    pre: all(ev[i] == P["prefix"][i] for i in range(len(P["prefix"])))
    post: _
    """
    hx.begin()
    trace = []
    try:
        h = H.Hist(init=P["init"], persistent=P["persistent"])
        n, p = h.n, h.p
        p.reconnect_wait = 30
        WORLD.connect_plan.extend(["inprogress", "refused", "ok", "inprogress"])
        for e in ev:
            name = EVENTS[hx.concretize_range(e, 0, len(EVENTS))]
            trace.append(name)
            if name == "tick5":
                h.ev_tick(5)
            elif name == "tick31":
                h.ev_tick(31)
            elif name == "conn_result_flip":
                # the pending outbound connect fails asynchronously
                c = h.newest(lambda x: x.is_sender and x.state == B.PEER_CONNECTING)
                if c is not None:
                    s = n.peer_sockets.get(c.ident)
                    if s is not None:
                        s.so_error = 111
                    h.settle()
            else:
                h.apply(name)
            outb = [c for c in h.live() if c.is_sender and c.node_name == p.node_name and c.state != B.PEER_CLOSED]
            if len(outb) > 1:
                return hx.check((ev,), (trace, "two self-initiated connections to one peer"), (trace, ""), "duplicate outbound connection")
            if not P["persistent"] and WORLD.dialled:
                return hx.check((ev,), (trace, "a non-persistent peer was dialled"), (trace, ""), "non-persistent peers are never dialled")
            if P["persistent"] and p.connection is not None and len(WORLD.dialled) and any(t == WORLD.now and False for (t, _a, _s) in WORLD.dialled):
                pass
    except Exception as e:
        return hx.check((ev,), (trace, "raised %s: %s" % (type(e).__name__, str(e)[:60])), (trace, ""), "the I/O loop died")
    return hx.holds((ev,), True, (trace, len(WORLD.dialled)), "")


def specs(tier, seed, carve):
    import random
    q = tier == "quick"
    rnd = random.Random(seed)
    out = [dict(id="dpr_step", fn="dpr_step", params={}, timeout=900, bound="inbound/outbound x READY/awaiting-DWA x with/without a pending request x {nothing, any of %d message kinds} after the DPR" % len(MSG_KINDS)),
           dict(id="reconnect_decision", fn="reconnect_decision", params={}, timeout=900,
                bound="all values: persistent, always_reconnect, reconnect_wait 1..60, elapsed 0..200, 11 disconnect reasons, stopping, has-connection, addresses, ever-disconnected")]
    out.append(dict(id="redial_pending", fn="redial_pending", params={}, timeout=300,
                    bound="persistent peer configured in lower / Capitalised / UPPER case; connection lost; wait over; the dial is refused or its CEA is slow; 1..3 further timer rounds"))
    out.append(dict(id="reconnect_after_loss", fn="reconnect_after_loss", params={}, timeout=900,
                    bound="persistent peer, outbound connection lost by {peer gone, socket error, DPR then gone, watchdog timeout, node close, CEA rejected}; always_reconnect, reconnect_wait 1..60, elapsed 0..100 symbolic"))
    ne = len(EVENTS)
    for persistent in (True, False):
        for init in ("ready_outbound", "ready_inbound"):
            firsts = list(range(ne))
            if q:
                firsts = rnd.sample(firsts, 3)
            for f in firsts:
                out.append(dict(id="history/%s/%s/d3/%s" % ("persistent" if persistent else "nonpersistent", init, EVENTS[f]), fn="history",
                                params={"init": init, "persistent": persistent, "depth": 3, "prefix": [f]}, timeout=1500,
                                bound="every 3-event history starting with %s over %d events (clock advances of 5 and 31 s, reconnect_wait 30) from '%s', peer %spersistent" % (
                                    EVENTS[f], ne, init, "" if persistent else "non-")))
    if not q:
        for f in range(ne):
            for g in rnd.sample(range(ne), 4):
                out.append(dict(id="history/persistent/ready_outbound/d4/%s/%s" % (EVENTS[f], EVENTS[g]), fn="history",
                                params={"init": "ready_outbound", "persistent": True, "depth": 4, "prefix": [f, g]}, timeout=3000,
                                bound="every 4-event history starting with %s, %s from 'ready_outbound', persistent peer" % (EVENTS[f], EVENTS[g])))
    return out


# ---------------------------------------------------------------------------------------------------------------------
# wire-level histories with this property's monitor (harness/uni.py): bytes in, bytes out, reference model of the far ends
from typing import List as _List  # noqa: E402
from harness import uni as U  # noqa: E402


def uni_history(ev: _List[int]) -> bool:
    """
    pre: len(ev) == P["depth"] and all(0 <= e < len(U.EVENTS) for e in ev)
    pre: all(ev[i] == P["prefix"][i] for i in range(len(P["prefix"])))
    post: _
    """
    return U.history_body(ev, P)


_own_specs = specs


def specs(tier, seed, carve):  # noqa: F811
    return _own_specs(tier, seed, carve) + U.specs(PROPERTY, tier, seed)


FUNCTIONS_ENCODED = list(FUNCTIONS_ENCODED) + U.FUNCTIONS
BOUNDS = {k: v + "; " + U.BOUNDS[k] for k, v in BOUNDS.items()}
OUTSIDE = list(OUTSIDE) + U.OUTSIDE
