"""C09 - application answers go only to the requesting connection, at most once."""
from typing import List
from engine import hx
from engine.env import STUBS, WORLD  # noqa: F401
from harness import bench as B
from harness.bench import drain

PROPERTY = "C09"
P = {}
FUNCTIONS_ENCODED = ["Application.send_answer (cooperative transform of the real source, two concurrent callers)", "Node.route_answer", "Node.send_message", "Node.remove_peer_connection", "Node.close_connection_socket", "Node.receive_dpr",
                     "Node._receive_app_request", "Application.send_answer / generate_answer", "Node.receive_cer (reconnect)"]
ASSUMPTIONS = ["hop-by-hop ids are drawn from a 5-element pool (the node only compares them and uses them as keys: data-independence)",
               "requests arrive in a fixed order; answer order, duplicate submission, fault kind and fault point are solver-chosen"]
BOUNDS = {"quick": "2 peers, 3 concurrent requests (2 on one connection), every assignment of ids from a 5-element pool (equal ids on different connections included unless the known finding is active), every order of answer submission, a duplicate submission, one fault in {none, requester gone, requester DPR, requester DPR with our DWR outstanding and the DWA arriving late, requester reconnects (abruptly / after DPR / after a watchdog timeout), other peer gone} at every point between arrival and submission",
          "thorough": "same (the scenario runs natively once the solver has fixed the choice indices, so the former thorough bound - ids from a 5-element pool, all 6 answer orders - is the quick bound now)"}
OUTSIDE = ["4 concurrent requests per peer", "two faults"]

PERMS = [(0, 1, 2), (0, 2, 1), (1, 0, 2), (1, 2, 0), (2, 0, 1), (2, 1, 0)]
FAULTS = ["none", "gone_1", "dpr_1", "reconnect_1", "gone_2", "dpr_reconnect_1", "dwa_timeout_reconnect_1", "reconnect_newreq_1", "dwr_dpr_dwa_1"]


class _Early(Exception):
    pass


def scenario(i1a: int, i1b: int, i2a: int, perm: int, fault: int, point: int, dup: int) -> bool:
    """
    pre: 0 <= i1a < P["pool"] and 0 <= i1b < P["pool"] and 0 <= i2a < P["pool"] and i1a != i1b
    pre: perm == P["perm"] and fault == P["fault"] and 0 <= point <= 3 and 0 <= dup <= 2
    pre: ("c09_equal_hbh_across_peers" not in P["carve"]) or (i2a != i1a and i2a != i1b)
    post: _
    """
    hx.begin()
    ids = [B.ID_POOL[hx.concretize_range(x, 0, 5)] for x in (i1a, i1b, i2a)]
    order = PERMS[P["perm"]]
    f = FAULTS[P["fault"]]
    pt = hx.concretize_range(point, 0, 4)
    dp = hx.concretize_range(dup, 0, 3)
    inputs = (i1a, i1b, i2a, perm, fault, point, dup)
    # every input is a choice index, concretised above: the scenario itself runs natively
    early = None
    log, exp = [], []
    try:
      with hx.untraced():
              b = B.Bench(n_peers=2, apps=((4, "auth"),))
              n, app = b.node, b.apps[0]
              outbound = bool(P.get("outbound"))
              cased = B.PEER_HOSTS[0].replace("peer1", "Peer1")          # the peer spells its identity with another letter case

              def connect1():
                  if not outbound:
                      return b.make_ready(b.peers[0], "10.0.1.1")[0]
                  cx = b.dial(b.peers[0], "ok")
                  drain(cx)
                  b.inject(cx, B.cea(cased))
                  drain(cx)
                  return cx
              c1 = connect1()
              if P.get("second_conn"):
                  # the second connection is a second established connection of the SAME peer
                  c2, s2 = b.make_ready(b.peers[0], "10.0.1.1")
              else:
                  c2, s2 = b.make_ready(b.peers[1], "10.0.1.2")
              conns = [c1, c2]
              # requests: 0 -> peer1/h1a, 1 -> peer2/h2a, 2 -> peer1/h1b
              plan = [(0, ids[0]), (1, ids[2]), (0, ids[1])]
              for k, (ci, hbh) in enumerate(plan):
                  b.inject(conns[ci], B.ccr(B.PEER_HOSTS[0 if P.get("second_conn") else ci], hbh, 7000 + k, session="s;%d" % k))
              for c in conns:
                  drain(c)
              reqs = list(app.requests)
              if len(reqs) != 3:
                  early = "requests not delivered"
                  raise _Early()
              arrived_on = [conns[ci] for (ci, _h) in plan]
              answered = set()
              log, exp = [], []
              dpr_seen = set()             # connections whose peer has asked to disconnect: never usable again, whatever their state field says

              def strike():
                  if f == "gone_1":
                      n.close_connection_socket(c1, B.DISCONNECT_REASON_GONE_AWAY)
                  elif f == "gone_2":
                      n.close_connection_socket(c2, B.DISCONNECT_REASON_GONE_AWAY)
                  elif f == "dpr_1":
                      b.inject(c1, B.dpr(B.PEER_HOSTS[0], 4242, 4242))
                      drain(c1)
                      dpr_seen.add(id(c1))
                  elif f == "reconnect_1":
                      n.close_connection_socket(c1, B.DISCONNECT_REASON_GONE_AWAY)
                      conns.append(connect1())
                  elif f == "reconnect_newreq_1":
                      # the requester comes back and sends a NEW request that reuses the hop-by-hop id of its first one
                      n.close_connection_socket(c1, B.DISCONNECT_REASON_GONE_AWAY)
                      c1n = connect1()
                      conns.append(c1n)
                      b.inject(c1n, B.ccr(B.PEER_HOSTS[0], ids[0], 7003, session="s;3"))
                      drain(c1n)
                      reqs.append(app.requests[-1])
                      arrived_on.append(c1n)
                      plan.append((len(conns) - 1, ids[0]))
                      seq.append(3)
                  elif f == "dpr_reconnect_1":
                      # the requester disconnects cleanly (DPR/DPA, then closes) and comes back
                      b.inject(c1, B.dpr(B.PEER_HOSTS[0], 4242, 4242))
                      drain(c1)
                      n.close_connection_socket(c1, B.DISCONNECT_REASON_GONE_AWAY)
                      c1n, _s = b.make_ready(b.peers[0], "10.0.1.1")
                      conns.append(c1n)
                  elif f == "dwr_dpr_dwa_1":
                      # our watchdog request is outstanding when the requester sends a DPR; the overdue DWA arrives after it
                      n.send_dwr(c1)
                      drain(c1)
                      b.inject(c1, B.dpr(B.PEER_HOSTS[0], 4242, 4242))
                      drain(c1)
                      b.inject(c1, B.dwa(B.PEER_HOSTS[0], 4243, 4243))
                      drain(c1)
                      dpr_seen.add(id(c1))
                  elif f == "dwa_timeout_reconnect_1":
                      n.send_dwr(c1)
                      drain(c1)
                      n.close_connection_socket(c1, B.DISCONNECT_REASON_DWA_TIMEOUT)
                      c1n, _s = b.make_ready(b.peers[0], "10.0.1.1")
                      conns.append(c1n)
              seq = list(order)
              if dp:
                  seq.insert(dp, order[0])              # the first answer is submitted a second time, right away or one later
              step = -1
              while step + 1 < len(seq):
                  step += 1
                  k = seq[step]
                  if step == pt and f != "none":
                      strike()
                  ans = app.generate_answer(reqs[k], result_code=2001)
                  try:
                      app.send_answer(ans)
                      res = "sent"
                  except B.NotRoutable:
                      res = "NotRoutable"
                  queued = [[(m.header.hop_by_hop_identifier, m.header.end_to_end_identifier) for m in drain(c) if not m.header.is_request] for c in conns]
                  log.append((k, res, queued))
                  home = arrived_on[k]
                  alive = home.ident in n.connections and n.connections[home.ident] is home and home.state in B.PEER_READY_STATES and id(home) not in dpr_seen
                  if alive and k not in answered:
                      answered.add(k)
                      exp.append((k, "sent", [[(plan[k][1], 7000 + k)] if c is home else [] for c in conns]))
                  else:
                      exp.append((k, "NotRoutable", [[] for _ in conns]))
    except _Early:
        return hx.fail(inputs, early)
    except Exception as e:
        return hx.fail(inputs, "raised %s: %s" % (type(e).__name__, str(e)[:80]))
    return hx.check(inputs, log, exp, "an answer must be transmitted only on the connection its request arrived on, at most once; otherwise NotRoutable and nothing is sent")


def repro_equal_ids_two_conns():
    """known finding (residual of the repaired routing defect): equal hop-by-hop AND end-to-end ids pending on two connections"""
    hx.begin()
    b = B.Bench(n_peers=2, apps=((4, "auth"),))
    n, app = b.node, b.apps[0]
    c1, _ = b.make_ready(b.peers[0], "10.0.1.1")
    c2, _ = b.make_ready(b.peers[1], "10.0.1.2")
    b.inject(c1, B.ccr(B.PEER_HOSTS[0], 0x10001, 7000, session="a"))
    b.inject(c2, B.ccr(B.PEER_HOSTS[1], 0x10001, 7000, session="b"))
    drain(c1)
    drain(c2)
    app.send_answer(app.generate_answer(app.requests[1], result_code=2001))
    on1 = [m.session_id for m in drain(c1)]
    on2 = [m.session_id for m in drain(c2)]
    return on1 == ["b"], "answer to peer2's request (0x10001, 7000) queued on peer1's connection: %r, on peer2's: %r" % (on1, on2)


def repro_equal_hbh():
    """known finding: two peers use the same hop-by-hop id at the same time; the second peer's answer goes to the first peer"""
    hx.begin()
    b = B.Bench(n_peers=2, apps=((4, "auth"),))
    n, app = b.node, b.apps[0]
    c1, _ = b.make_ready(b.peers[0], "10.0.1.1")
    c2, _ = b.make_ready(b.peers[1], "10.0.1.2")
    b.inject(c1, B.ccr(B.PEER_HOSTS[0], 0x10001, 7000))
    b.inject(c2, B.ccr(B.PEER_HOSTS[1], 0x10001, 7001))
    drain(c1)
    drain(c2)
    app.send_answer(app.generate_answer(app.requests[1], result_code=2001))
    on1 = [m.header.end_to_end_identifier for m in drain(c1)]
    on2 = [m.header.end_to_end_identifier for m in drain(c2)]
    return on1 == [7001], "answer to peer2's request 0x10001/7001 queued on peer1's connection: %r, on peer2's: %r" % (on1, on2)



# ----------------------------------------------------------------------------- concurrent submissions for one request
from engine import coop  # noqa: E402
from diameter.node.application import Application as _App  # noqa: E402

_REG = {}
SEND_ANSWER, _SRC = coop.coop(_App.send_answer, registry=_REG)


def answer_race(sched: List[int], other: bool) -> bool:
    """
    pre: len(sched) == P["slots"] and all(0 <= s < 12 for s in sched) and all(sched[i] < sched[i + 1] for i in range(len(sched) - 1))
    post: _
    """
    hx.begin()
    inputs = (sched, other)
    # two threads of a plain Application (e.g. the handler and a time-out thread) submit an answer for the SAME request; the real
    # Application.send_answer runs as a cooperative generator (preemption before each of its statements; route_answer and
    # send_message themselves are atomic here), the solver places the preemptions
    sc = [hx.concretize_range(x, 0, 12) for x in sched]
    oth = bool(other)
    try:
        with hx.untraced():
            b = B.Bench(n_peers=2, apps=((4, "auth"),))
            n, app = b.node, b.apps[0]
            c1, s1 = b.make_ready(b.peers[0], "10.0.1.1")
            c2, s2 = b.make_ready(b.peers[1], "10.0.1.2")
            b.inject(c1, B.ccr(B.PEER_HOSTS[0], 41, 42))
            if oth:
                b.inject(c2, B.ccr(B.PEER_HOSTS[1], 41, 43))       # a bystander request with the same hop-by-hop id
            req = app.requests[0]
            outcome = {}

            def submit(i):
                try:
                    yield from SEND_ANSWER(app, app.generate_answer(req, result_code=2001 + i))
                    outcome[i] = "sent"
                except B.NotRoutable:
                    outcome[i] = "NotRoutable"
                except Exception as e:
                    outcome[i] = type(e).__name__
            used = [False] * len(sc)

            def choose(step, nrunnable):
                for i in range(len(sc)):
                    if not used[i] and sc[i] == step:
                        used[i] = True
                        return 1
                return 0
            coop.run_choices([submit(0), submit(1)], choose, len(sc), max_steps=200)
            on1 = [m.header.end_to_end_identifier for m in drain(c1) if not m.header.is_request]
            on2 = [m.header.end_to_end_identifier for m in drain(c2) if not m.header.is_request]
            obs = (len(on1), len(on2), sorted(outcome.values()).count("sent"))
    except Exception as e:
        return hx.fail(inputs, "raised %s: %s" % (type(e).__name__, str(e)[:80]))
    return hx.check(inputs, obs, (1, 0, 1), "two concurrent submissions for one request: exactly one is transmitted (to the requester), the other fails")


def specs(tier, seed, carve):
    out = []
    q = tier == "quick"
    for slots in (1, 2):
        out.append(dict(id="answer_race/p%d" % slots, fn="answer_race", params={"slots": slots}, timeout=600,
                        bound="two concurrent Application.send_answer calls for one request (with / without a bystander request of equal hop-by-hop id on another connection), every placement of %d preemption(s) between the statements of send_answer" % slots))
    for fi_ in (0, 2):
        for pi in (0, 4):
            out.append(dict(id="scenario/second_conn/%s/perm%d" % (FAULTS[fi_], pi), fn="scenario", params={"fault": fi_, "perm": pi, "pool": 3, "second_conn": True}, timeout=900,
                            bound="ONE peer with two established connections, requests on both; fault %s; answer order %r" % (FAULTS[fi_], PERMS[pi])))
    for pi in (0, 3):
        out.append(dict(id="scenario/outbound_reconnect_1/perm%d" % pi, fn="scenario", params={"fault": FAULTS.index("reconnect_1"), "perm": pi, "pool": 3, "outbound": True}, timeout=900,
                        bound="requester connection dialled by the node, peer identity in another letter case; requester lost and re-dialled at every point; answer order %r" % (PERMS[pi],)))
    for fi, fn_ in enumerate(FAULTS):
        for pi in range(6):
            out.append(dict(id="scenario/%s/perm%d" % (fn_, pi), fn="scenario", params={"fault": fi, "perm": pi, "pool": 5}, timeout=900 if q else 3000,
                            bound="fault %s at every point; every id assignment from a %d-element pool%s; answer order %r; duplicate submission at 2 positions" % (
                                fn_, 5, " (equal ids across peers excluded: known finding)" if "c09_equal_hbh_across_peers" in carve else "", PERMS[pi])))
    return out


# ---------------------------------------------------------------------------------------------------------------------
# wire-level histories with this property's monitor (harness/uni.py): bytes in, bytes out, reference model of the far ends
from typing import List as _List  # noqa: E402
from harness import uni as U  # noqa: E402


def uni_history(ev: _List[int]) -> bool:
    """
    pre: len(ev) == P["depth"] and all(0 <= e < len(U.EVENTS) for e in ev)
    pre: all(ev[i] == P["prefix"][i] for i in range(len(P["prefix"])))
    post: _
    """
    return U.history_body(ev, P)


_own_specs = specs


def specs(tier, seed, carve):  # noqa: F811
    return _own_specs(tier, seed, carve) + U.specs(PROPERTY, tier, seed)


FUNCTIONS_ENCODED = list(FUNCTIONS_ENCODED) + U.FUNCTIONS
BOUNDS = {k: v + "; " + U.BOUNDS[k] for k, v in BOUNDS.items()}
OUTSIDE = list(OUTSIDE) + U.OUTSIDE
