"""Wire-level history driver with one monitor per property (shared by C06..C15, C17, C19, C20).

A real Node (two configured peers, one application per peer with the same application id, optionally a stranger) runs on the
virtual world of engine/env.py.  Everything that reaches the node is *bytes* queued on a virtual socket, everything the node
does is observed as the *bytes* it hands to `send()` plus what its applications are shown; nothing is read from the node's own
state except by the table invariant (C13) and the retained-state measure (C19).  A short reference model of the far ends (which
endpoint has completed its capabilities exchange, which requests are unanswered, which answers fill the retransmission window,
when a watchdog is due) turns the properties into monitors that are evaluated after every event of a history.

The events of a history are the only inputs of the obligation `history`; they are fixed first (solver-decided bisection
branches), then the history runs natively (DESIGN 2.11).  Each harness module C<xx> registers the obligation with
P["prop"] = its own id and is failed only by its own monitor."""
import errno
import socket as real_socket
from collections import deque
from typing import List

from engine import hx
from engine.env import WORLD, VSock
from harness import bench as B
from harness import hist as H           # connection tracking (ALL_CONNS)
from diameter.message.avp import Avp as _Avp

P1, P2, PX = B.PEER_HOSTS[0], B.PEER_HOSTS[1], "stranger.local.realm"
K = B.constants
BASE_CODES = (257, 280, 282)
INITS = ["fresh", "in1", "in1_in2", "out1", "in1_pend", "in1_in1", "in1_out2", "in1_answered", "in1_dwr"]

EP_ACTIONS = ["cer1", "cer2", "cerx", "cer1nc", "cea_ok", "cea_rej", "dwr", "dwa", "dpr", "dpa", "req", "req2", "reqT", "reqdup", "req_bad",
              "req_realm", "req_app9", "dpr_req", "half", "ans", "ans_unk", "eof", "rst", "req_h0", "req_e0", "dwr_00",
              "req_part", "cea_rej_req", "cer1_req", "req_raise", "wr_eagain", "wr_short", "req_lag", "req_2048", "req_eof_lag", "reqT_other"]
GLOBAL = ["accept", "dial1", "dial1_refused", "app_ans", "app_ans_new", "app_ans_again", "app_req0", "app_req1", "tick5", "tick25", "tick31", "node_close_old",
          "handler_raises", "reconn1", "reconn1_out", "both_lag", "dial1_early"]
FUNCTIONS = ["wire level (uni): Node._handle_connections, PeerConnection.work_read_queue/work_write_queue, Node._receive_message and every receive_*/send_* handler, route_request/route_answer, _check_timers, _reconnect_peers, remove_peer_connection - driven by bytes on virtual sockets, observed as bytes"]
BOUNDS = {"quick": "wire-level histories (uni): every 2-event history over 89 events from the 2-4 initial states closest to the property, this property's monitor after every event",
          "thorough": "wire-level histories (uni): every 2-event history from 9 initial states x {persistent, non-persistent peers}; every 3-event history for 48 seeded (initial state, first event) pairs"}
OUTSIDE = ["wire-level histories deeper than 3 events beyond the 9 initial states", "more than 2 configured peers / 3 simultaneous connections in the wire-level histories"]
EVENTS = [a + "@new" for a in EP_ACTIONS] + [a + "@old" for a in EP_ACTIONS] + GLOBAL


class Ep:
    """the far end of one transport connection"""

    def __init__(self, sock, direction, dialled=None, t=0):
        self.sock, self.dir, self.dialled = sock, direction, dialled
        self.out_pos = 0
        self.ledger = {}            # (code, app, hbh, e2e) -> number of complete unanswered requests pushed
        self.reqs = {}              # (hbh, e2e) -> record of an application request pushed here
        self.ce = "none"            # reference: none | ok | failed | maybe
        self.ce_out = "none"        # as seen on the node's output
        self.claimed = None
        self.cer_sent = False
        self.cea_sent = False
        self.allowed_cea = None
        self.dpr_rx = False
        self.dpr_tx = False
        self.ended = False
        self.partial = b""
        self.node_cer = None
        self.node_reqs = []         # application requests the node transmitted here: [hbh, e2e, app index, answered]
        self.dwr_out = []           # node's DWRs not yet answered by a DWA of ours: (hbh, e2e, time)
        self.last_rx = t
        self.born = t
        self.last_e2e = None

    @property
    def open(self):
        return not self.ended and not self.sock.closed

    @property
    def ready(self):
        return self.open and self.ce == "ok" and not self.dpr_rx and not self.dpr_tx

    @property
    def peer(self):
        return self.claimed if self.dir == "in" else self.dialled


class Uni:
    def __init__(self, init="fresh", persistent=False):
        self.b = B.Bench(n_peers=2, apps=((4, "auth"), (4, "auth")), app_peers=[[0], [1]], persistent=persistent, stats=True)
        self.n = self.b.node
        self.b.peers[0].idle_timeout = 20        # per-peer watchdog timers differ from the node defaults (30 / 4)
        self.b.peers[0].dwa_timeout = 8
        self.persistent = persistent
        self.eps = []
        self.v = []                 # (property, text)
        self.seq = 5000
        self.window = {}            # origin -> deque of answered end-to-end ids (reference sliding window)
        self.delivered = {}         # (hbh, e2e) -> [app index, ...]
        self.app_seen = [0, 0]
        self.ans_seen = [0, 0]
        self.pending = []           # delivered, not yet answered by the application: (app index, message, ep)
        self.last_submitted = None
        self.sent_reqs = {}         # (hbh, e2e) -> app index, for requests applications sent
        self.loss = {}              # peer -> (time, after_dpr) of the loss of its only connection
        self.trace = []
        self.ref_raise = [False, False]
        self.multi = set()
        self.last_e2e = {}
        for app in self.b.apps:
            app.raise_next = False
            orig = app.handle_request

            def hr(m, app=app, orig=orig):
                orig(m)
                if app.raise_next:
                    app.raise_next = False
                    raise RuntimeError("handler failed")
            app.handle_request = hr
        if init != "fresh":
            for step in {"in1": ["accept", "cer1@new"], "in1_in2": ["accept", "cer1@new", "accept", "cer2@new"], "out1": ["dial1", "cea_ok@new"],
                         "in1_pend": ["accept", "cer1@new", "req@new"], "in1_in1": ["accept", "cer1@new", "accept", "cer1@new"],
                         "in1_out2": ["accept", "cer1@new", "dial2", "cea_ok@new"], "in1_answered": ["accept", "cer1@new", "req@new", "app_ans"],
                         "in1_dwr": ["accept", "cer1@new", "tick31"]}[init]:
                self.apply(step)
        self.trace = []

    # ------------------------------------------------------------------ helpers
    def bad(self, prop, text):
        self.v.append((prop, "%s  [after %s]" % (text, ",".join(self.trace[-4:]))))
        if prop == "C08" and (text.startswith("request (req)") or text.startswith("request handed to an application") or "nobody sent" in text):
            # a well-formed frame of the stream was not delivered exactly once: the framing property as well
            self.v.append(("C05", "%s  [after %s]" % (text, ",".join(self.trace[-4:]))))

    def nid(self):
        self.seq += 1
        return self.seq

    def target(self, which):
        live = [e for e in self.eps if e.open]
        if not live:
            return None
        return live[-1] if which == "new" else live[0]

    def conn_of(self, ep):
        for ident, s in list(self.n.peer_sockets.items()):
            if s is ep.sock:
                return self.n.connections.get(ident)
        return None

    def app_index(self, peer):
        return {P1: 0, P2: 1}.get(peer)

    def settle(self):
        try:
            WORLD.settle(self.n)
        except Exception as e:           # a thread body ended by an exception
            self.bad("C14", "a node/connection worker died: %s: %s" % (type(e).__name__, str(e)[:100]))
        for s in self.b.listener.backlog:
            pass
        self.register_dials()
        self.observe()

    def register_dials(self):
        # sockets the node created itself (reconnects)
        known = {id(e.sock) for e in self.eps}
        for t, addr, s in WORLD.dialled:
            if id(s) not in known:
                known.add(id(s))
                peer = {"10.0.1.1": P1, "10.0.1.2": P2}.get(addr[0] if isinstance(addr, tuple) else addr)
                self.note_dial(s, peer, t)

    # ------------------------------------------------------------------ what the node transmitted
    def observe(self):
        for ep in self.eps:
            data = ep.sock.out[ep.out_pos:]
            while len(data) >= 20:
                ln = int.from_bytes(data[1:4], "big")
                if ln < 20 or data[0] != 1:
                    self.bad("C15", "bytes handed to the transport are not a Diameter frame (version %d, length %d)" % (data[0], ln))
                    ep.out_pos = len(ep.sock.out)
                    data = b""
                    break
                if ln > len(data):
                    break
                try:
                    m = B.Message.from_bytes(data[:ln])
                except Exception as e:
                    self.bad("C15", "transmitted frame does not decode: %s" % type(e).__name__)
                    m = None
                ep.out_pos += ln
                data = data[ln:]
                if m is not None:
                    self.on_out(ep, m)
            if data and WORLD.timed_out:
                self.bad("C15", "%d bytes of an incomplete frame handed to the transport at quiescence" % len(data))
        # what the applications were shown
        for k, app in enumerate(self.b.apps):
            for m in app.requests[self.app_seen[k]:]:
                self.on_delivery(k, m)
            self.app_seen[k] = len(app.requests)
            for m in app.answers[self.ans_seen[k]:]:
                self.on_app_answer(k, m)
            self.ans_seen[k] = len(app.answers)

    def on_out(self, ep, m):
        h = m.header
        key = (h.command_code, h.application_id, h.hop_by_hop_identifier, h.end_to_end_identifier)
        rc = getattr(m, "result_code", None)
        if h.is_request:
            if h.command_code == 257:
                if ep.dir != "out" or ep.node_cer is not None:
                    self.bad("C06", "CER transmitted on an inbound connection / twice")
                ep.node_cer = key
                return
            if (ep.dir == "in" and ep.ce_out != "ok") or (ep.dir == "out" and ep.ce != "ok"):
                self.bad("C06", "request (command %d) transmitted on a connection whose capabilities exchange has not succeeded" % h.command_code)
            if h.command_code == 280:
                if ep.dwr_out:
                    self.bad("C11", "a second DWR is sent while the first is unanswered")
                if not (ep.ce == "ok" and not ep.dpr_rx and not ep.dpr_tx):
                    self.bad("C11", "DWR sent on a connection that is not ready")
                if WORLD.now - ep.last_rx < self.idle_timeout(ep):          # (equality: either reading of 'longer than' is accepted)
                    self.bad("C11", "DWR sent although traffic arrived %d s ago (idle timeout %d)" % (WORLD.now - ep.last_rx, self.idle_timeout(ep)))
                ep.dwr_out.append((h.hop_by_hop_identifier, h.end_to_end_identifier, WORLD.now))
            elif h.command_code == 282:
                ep.dpr_tx = True
            else:
                if h.hop_by_hop_identifier == 0:
                    self.bad("C10", "request sent with hop-by-hop id 0")
                if any(r[0] == h.hop_by_hop_identifier and not r[3] for r in ep.node_reqs):
                    self.bad("C10", "hop-by-hop id equals that of an outstanding request on the connection")
                k = self.sent_reqs.get((h.hop_by_hop_identifier, h.end_to_end_identifier))
                if not ep.ready_before:
                    self.bad("C10", "application request transmitted on a connection that is not ready")
                elif k is not None and ep.peer != (P1, P2)[k]:
                    self.bad("C10", "application request transmitted to a peer that is not configured for the application")
                ep.node_reqs.append([h.hop_by_hop_identifier, h.end_to_end_identifier, k, False])
            return
        # ---- an answer
        if ep.ledger.get(key, 0) <= 0:
            self.bad("C07", "answer (command %d, app %d, hbh %#x, e2e %#x, result %s) matches no unanswered request received on this connection" % (
                key + (rc,)))
        else:
            ep.ledger[key] -= 1
        if h.command_flags & 0x80 or (h.command_flags & 0x10):
            self.bad("C20", "answer transmitted with the R or T bit set")
        oh = getattr(m, "origin_host", None)
        if isinstance(oh, (bytes, bytearray)) and h.command_code in BASE_CODES and bytes(oh) != B.NODE_HOST.encode():
            self.bad("C20", "answer generated by the node carries Origin-Host %r" % bytes(oh))
        if h.command_code == 257:
            if ep.dir != "in" and not any(k[0] == 257 for k in ep.ledger):
                self.bad("C06", "CEA transmitted on an outbound connection that has not received a CER")
            if ep.ce_out != "none":
                return                      # answer to an unexpected (second) CER: unspecified, and it changes nothing
            if ep.allowed_cea is not None and rc not in ep.allowed_cea:
                self.bad("C06", "CER answered with result %s, expected one of %s" % (rc, sorted(ep.allowed_cea)))
            if rc == 2001 and ep.allowed_cea is not None:
                for attr, want in (("origin_host", B.NODE_HOST.encode()), ("origin_realm", B.REALM.encode()), ("vendor_id", self.n.vendor_id),
                                   ("product_name", self.n.product_name)):
                    if getattr(m, attr, None) != want:
                        self.bad("C06", "CEA %s is %r, expected %r" % (attr, getattr(m, attr, None), want))
                if sorted(getattr(m, "auth_application_id", []) or []) != [4]:
                    self.bad("C06", "CEA lists auth application ids %r" % (getattr(m, "auth_application_id", None),))
            ep.ce_out = "ok" if rc == 2001 else "failed"
            if ep.ce == "maybe":
                ep.ce = ep.ce_out
            return
        if ep.dir == "in" and ep.ce_out != "ok":
            self.bad("C06", "answer (command %d) transmitted before the capabilities exchange succeeded" % h.command_code)
        if h.command_code == 280:
            if rc != 2001:
                self.bad("C11", "DWR answered with result %s" % rc)
            if getattr(m, "origin_state_id", None) != self.n.state_id:
                self.bad("C11", "DWA without the node's Origin-State-Id")
        elif h.command_code == 282:
            if rc != 2001:
                self.bad("C12", "DPR answered with result %s" % rc)
        else:
            r = ep.reqs.get((h.hop_by_hop_identifier, h.end_to_end_identifier))
            if r is not None:
                r["answers"].append(rc)
                if r["origin"] is not None:
                    self.window.setdefault(r["origin"], deque(maxlen=self.n.retransmit_queue_size)).append(h.end_to_end_identifier)
                exp = r["expect"]
                if exp is not None and exp[0] == "rc" and rc != exp[1]:
                    self.bad(exp[2], "request (%s) answered with result %s, expected %s" % (r["kind"], rc, exp[1]))

    def on_delivery(self, k, m):
        h = m.header
        key = (h.hop_by_hop_identifier, h.end_to_end_identifier)
        self.delivered.setdefault(key, []).append(k)
        if h.command_code in BASE_CODES:
            self.bad("C08", "base-protocol message (command %d) handed to an application" % h.command_code)
            return
        r = ep = None
        for e in self.eps:
            if key in e.reqs:
                r, ep = e.reqs[key], e
        if r is None:
            self.bad("C08", "application was shown a request nobody sent (hbh %#x)" % key[0])
            return
        r["delivered"].append(k)
        self.pending.append((k, m, ep, r))
        if r["pre_ce"]:
            self.bad("C06", "request received before the capabilities exchange succeeded was shown to an application")
            return
        if len(r["delivered"]) > 1:
            self.bad("C08", "request handed to an application %d times" % len(r["delivered"]))
        exp = r["expect"]
        if exp is not None and exp[0] == "rc" and r.get("raises"):
            if k != r["app"]:
                self.bad("C08", "request of %s handed to the application configured for another peer" % ep.claimed)
        elif exp is not None and exp[0] == "rc":
            self.bad(exp[2], "request (%s) that the node must answer with %d was shown to an application" % (r["kind"], exp[1]))
        elif exp is not None and exp[0] == "deliver" and exp[1] != k:
            self.bad("C08", "request of %s handed to the application configured for another peer" % ep.claimed)

    def on_app_answer(self, k, m):
        h = m.header
        key = (h.hop_by_hop_identifier, h.end_to_end_identifier)
        owner = self.sent_reqs.get(key)
        if owner is None:
            self.bad("C10", "an answer nobody's request matches (hbh %#x) was passed to an application" % key[0])
        elif owner != k:
            self.bad("C10", "answer passed to the unexpected-answer handler of another application than the sender")

    # ------------------------------------------------------------------ reference bits
    def idle_timeout(self, ep):
        return 20 if (ep.ce == "ok" and ep.peer == P1) else self.n.idle_timeout

    def dwa_timeout(self, ep):
        return 8 if (ep.ce == "ok" and ep.peer == P1) else self.n.dwa_timeout

    def ref_cer(self, origin, apps):
        name = origin.lower()
        if name not in (P1, P2):
            return {K.E_RESULT_CODE_DIAMETER_UNKNOWN_PEER}
        if 4 not in apps:
            return {K.E_RESULT_CODE_DIAMETER_NO_COMMON_APPLICATION}
        if any(e.dir == "out" and e.dialled == name and e.open for e in self.eps):
            return {2001, K.E_RESULT_CODE_DIAMETER_ELECTION_LOST}
        return {2001}

    def note_dial(self, sock, peer, t):
        ep = Ep(sock, "out", peer, t)
        ep.ready_before = False
        same = [e for e in self.eps if e.dir == "out" and e.dialled == peer and e.open]
        if same:
            self.bad("C12", "two self-initiated connections to %s at the same time" % peer)
        self.eps.append(ep)
        return ep

    def note_in(self, ep, m, kind):
        """reference transition for one complete frame pushed to the node, in wire order"""
        h = m.header
        key = (h.command_code, h.application_id, h.hop_by_hop_identifier, h.end_to_end_identifier)
        if h.is_request:
            ep.ledger[key] = ep.ledger.get(key, 0) + 1
        code = h.command_code
        if h.is_request and code == 257:
            if ep.dir == "in" and not ep.cer_sent:
                ep.cer_sent = True
                origin = m.origin_host.decode()
                ep.allowed_cea = self.ref_cer(origin, list(m.auth_application_id))
                if ep.allowed_cea == {2001}:
                    ep.ce, ep.claimed = "ok", origin.lower()
                elif 2001 in ep.allowed_cea:
                    ep.ce, ep.claimed = "maybe", origin.lower()
                else:
                    ep.ce = "failed"
            return
        if not h.is_request and code == 257:
            if ep.dir == "out" and ep.node_cer is not None and not ep.cea_sent and ep.ce == "none":
                ep.cea_sent = True
                ep.ce = "ok" if m.result_code == 2001 else "failed"
            return
        if code == 280 and not h.is_request:
            if ep.dwr_out:
                ep.dwr_out.pop(0)
            return
        if code == 282 and h.is_request:
            if ep.ce == "ok":
                ep.dpr_rx = True
            return
        if code in BASE_CODES or not h.is_request:
            if not h.is_request and code not in BASE_CODES:
                for r in ep.node_reqs:
                    if (r[0], r[1]) == (h.hop_by_hop_identifier, h.end_to_end_identifier):
                        r[3] = True
            return
        # ---- an application request
        origin = P1 if ep.claimed is None else ep.claimed
        rec = {"kind": kind, "pre_ce": ep.ce in ("none", "failed"), "delivered": [], "answers": [], "expect": None, "origin": None,
               "ready": ep.ready, "t": len(self.trace)}
        oh = getattr(m, "origin_host", None)
        rec["origin"] = bytes(oh) if isinstance(oh, (bytes, bytearray)) else None
        if ep.ready:
            k = self.app_index(ep.claimed if ep.dir == "in" else ep.dialled)
            if kind == "req_bad":
                rec["expect"] = ("rc", 5005, "C08")
            elif h.is_retransmit and rec["origin"] in self.window and h.end_to_end_identifier in self.window[rec["origin"]]:
                rec["expect"] = ("rc", 5012, "C17")
            elif kind == "req_realm":
                rec["expect"] = ("rc", 3003, "C08")
            elif kind == "req_app9":
                rec["expect"] = ("rc", 3007, "C08")
            elif k is not None:
                rec["expect"] = ("rc", 5012, "C08") if self.ref_raise[k] else ("deliver", k, "C08")
                rec["raises"] = self.ref_raise[k]
                rec["app"] = k
                self.ref_raise[k] = False
        ep.reqs[(h.hop_by_hop_identifier, h.end_to_end_identifier)] = rec
        self.last_e2e[origin] = h.end_to_end_identifier

    def after_push(self, ep, recs):
        """at the quiescent point after a read: every request pushed on a ready connection was delivered once or answered"""
        for rec in recs:
            exp = rec["expect"]
            if exp is None or not rec["ready"]:
                if rec["pre_ce"] and rec["answers"]:
                    self.bad("C06", "request received before the capabilities exchange succeeded was answered (%s)" % rec["answers"])
                continue
            if exp[0] == "deliver":
                if rec["delivered"] != [exp[1]] and rec["kind"] == "reqT_other":
                    self.bad("C17", "request of another origin host with an end-to-end id this peer has used was not delivered (%s, node answers %s)" % (rec["delivered"], rec["answers"]))
                if rec["delivered"] != [exp[1]]:
                    self.bad("C17" if rec["kind"] in ("reqT", "reqdup") else "C08",
                             "request (%s) on a ready connection was delivered to %s, expected exactly once to application %d (node answers: %s)" % (
                                 rec["kind"], rec["delivered"], exp[1], rec["answers"]))
                if rec["answers"]:
                    self.bad("C17" if rec["kind"] in ("reqT", "reqdup") else "C08", "request (%s) handed to the application was also answered by the node with %s" % (rec["kind"], rec["answers"]))
            else:
                if rec["answers"] != [exp[1]]:
                    self.bad(exp[2], "request (%s) must be answered %d by the node exactly once, answers: %s" % (rec["kind"], exp[1], rec["answers"]))
                want = [rec["app"]] if rec.get("raises") else []
                if rec["delivered"] != want:
                    self.bad(exp[2], "request (%s) the node answers itself was shown to applications %s" % (rec["kind"], rec["delivered"]))

    # ------------------------------------------------------------------ events
    def push(self, ep, frames, raw=None, extra=b"", chunks=None, ends=False):
        """one network read carrying the given frames (list of (message, kind)) - preceded by the rest of a half-sent frame"""
        if ep is None or not ep.open:
            return False
        for e in self.eps:
            e.ready_before = e.ready
        data = ep.partial
        ep.partial = b""
        if data:
            frames = [(self._half_msg, "req")] + list(frames)
            self._half_msg = None
        before = set(ep.reqs)
        blob = b""
        for m, kind in frames:
            blob += m.as_bytes()
        if raw is not None:
            payload = raw
        elif data:
            payload = blob[len(data):]          # the first bytes went out with the 'half' / 'req_part' event
        else:
            payload = blob
        payload += extra
        for m, kind in frames:
            self.note_in(ep, m, kind)
        if ends:
            # the far end closes right behind these frames: whether they are still served is not specified (the connection is
            # not ready any more by the time the reader runs) - no delivery/answer is demanded, only the safety monitors apply
            for k in ep.reqs:
                if k not in before:
                    ep.reqs[k]["expect"] = None
            ep.ended = True
            self.note_loss(ep)
        ep.last_rx = WORLD.now
        if chunks and not data:
            ep.sock.inq.extend(chunks)
            WORLD.defer_pump = len(chunks)
        else:
            ep.sock.inq.append(payload)
        self.settle()
        self.after_push(ep, [ep.reqs[k] for k in ep.reqs if k not in before])
        for k, app in enumerate(self.b.apps):
            self.ref_raise[k] = app.raise_next          # (an undelivered request leaves the real flag set)
        return True

    def mk_req(self, ep, kind, origin=None):
        i = self.nid()
        origin = origin or ep.claimed or (ep.dialled if ep.dir == "out" else P1)
        e2e = i
        flags = 0
        if kind in ("reqT", "reqdup") and self.last_e2e.get(origin) is not None:
            e2e = self.last_e2e[origin]
        if kind == "reqT":
            flags = 0x10
        if kind == "req_app9":
            m = B.ccr(origin, i, e2e, app=9, flags_extra=flags)
        elif kind == "req_realm":
            m = B.ccr(origin, i, e2e, realm="elsewhere.realm", flags_extra=flags)
        else:
            m = B.ccr(origin, i, e2e, flags_extra=flags)
        if kind == "req_bad":
            m.cc_request_type = None
        m.session_id = "s;%d" % i
        if kind == "req_h0":
            m.header.hop_by_hop_identifier = 0          # identifiers are the peer's choice: 0 is a value like any other
        if kind == "req_e0":
            m.header.end_to_end_identifier = 0
        return B.Message.from_bytes(m.as_bytes())

    def apply(self, name):
        self.trace.append(name)
        n = self.n
        if "@" in name:
            act, which = name.split("@")
            ep = self.target(which)
            if ep is None:
                return False
            if which == "old" and ep is self.target("new"):
                return False                 # same endpoint: covered by @new
            i = self.nid()
            origin = ep.claimed or (ep.dialled if ep.dir == "out" else P1)
            if act in ("cer1", "cer2", "cerx", "cer1nc"):
                if (ep.dir != "in" or ep.cer_sent) and act != "cer1":
                    return False
                # (cer1 on a connection that has had its capabilities exchange, or that the node dialled, is an unexpected CER:
                # whatever the node answers, the connection's standing must not change)
                who = {"cer1": P1, "cer2": P2, "cerx": PX, "cer1nc": P1}[act]
                return self.push(ep, [(B.cer(who, apps=[9] if act == "cer1nc" else [4], hbh=i, e2e=i), act)])
            if act in ("cea_ok", "cea_rej"):
                hbh, e2e = (ep.node_cer[2], ep.node_cer[3]) if (ep.dir == "out" and ep.node_cer and not ep.cea_sent) else (i, i)
                return self.push(ep, [(B.cea(origin, result=2001 if act == "cea_ok" else 5010, hbh=hbh, e2e=e2e), act)])
            if act == "dwr":
                return self.push(ep, [(B.dwr(origin, i, i), act)])
            if act == "dwr_00":
                return self.push(ep, [(B.dwr(origin, 0, 0), act)])
            if act == "dwa":
                hbh, e2e = (ep.dwr_out[0][0], ep.dwr_out[0][1]) if ep.dwr_out else (i, i)
                return self.push(ep, [(B.dwa(origin, hbh, e2e), act)])
            if act == "dpr":
                return self.push(ep, [(B.dpr(origin, i, i), act)])
            if act == "dpa":
                return self.push(ep, [(B.dpa(origin, i, i), act)])
            if act == "reqT_other":
                # relayed traffic: a T-flagged request of ANOTHER origin host behind this peer that happens to carry the end-to-end
                # id of the last request of the peer itself (ids are unique per origin host only) - not a duplicate
                m = self.mk_req(ep, "reqT")
                m.origin_host = b"relayed.local.realm"
                return self.push(ep, [(B.Message.from_bytes(m.as_bytes()), "reqT_other")])
            if act in ("req", "reqT", "reqdup", "req_bad", "req_realm", "req_app9", "req_h0", "req_e0"):
                return self.push(ep, [(self.mk_req(ep, act), act)])
            if act == "req2":
                return self.push(ep, [(self.mk_req(ep, "req"), "req"), (self.mk_req(ep, "req"), "req")])
            if act == "req_raise":
                k = self.app_index(ep.peer)
                if k is not None and ep.ready:
                    self.b.apps[k].raise_next = True
                    self.ref_raise[k] = True
                return self.push(ep, [(self.mk_req(ep, "req"), "req")])
            if act == "cer1_req":
                if ep.dir != "in" or ep.cer_sent:
                    return False
                cer = B.cer(P1, hbh=i, e2e=i)
                ep.claimed_hint = P1
                return self.push(ep, [(cer, "cer1"), (self.mk_req(ep, "req", origin=P1), "req")])
            if act == "cea_rej_req":
                hbh, e2e = (ep.node_cer[2], ep.node_cer[3]) if (ep.dir == "out" and ep.node_cer and not ep.cea_sent) else (i, i)
                return self.push(ep, [(B.cea(origin, result=5010, hbh=hbh, e2e=e2e), "cea_rej"), (self.mk_req(ep, "req"), "req")])
            if act == "req_part":
                # a complete request and the first 30 bytes of the next one in one read; the rest arrives with the next read
                if ep.partial:
                    return False
                m1, m2 = self.mk_req(ep, "req"), self.mk_req(ep, "req")
                ok = self.push(ep, [(m1, "req")], extra=m2.as_bytes()[:30])
                self._half_msg = m2
                ep.partial = m2.as_bytes()[:30]
                return ok
            if act == "req_2048":
                if ep.partial:
                    return False          # (half a frame is pending: this read pattern does not apply)
                # a request followed by one padded so that the read is exactly 2048 bytes long (the size the node asks recv for),
                # with nothing behind it: a second recv would find the socket empty (EAGAIN)
                m1, m2 = self.mk_req(ep, "req"), self.mk_req(ep, "req")
                room = 2048 - len(m1.as_bytes()) - len(m2.as_bytes()) - 8
                m2.append_avp(_Avp(0xf0000055, 0, b"\x00" * room))
                m2 = B.Message.from_bytes(m2.as_bytes())
                assert len(m1.as_bytes()) + len(m2.as_bytes()) == 2048
                return self.push(ep, [(m1, "req"), (m2, "req")])
            if act == "req_eof_lag":
                if ep.partial:
                    return False          # (half a frame is pending: this read pattern does not apply)
                # a request and the end of the connection, both seen by the I/O thread before the reader thread gets to run:
                # the request is dispatched on a connection that has already been removed
                m1 = self.mk_req(ep, "req")
                ok = self.push(ep, [(m1, "req")], chunks=[m1.as_bytes(), b""], ends=True)
                return ok
            if act == "req_lag":
                if ep.partial:
                    return False          # (half a frame is pending: this read pattern does not apply)
                # two requests arriving as three network reads (cuts inside the second header and inside its body) which the
                # I/O thread has all received before the connection's reader thread gets to run
                m1, m2 = self.mk_req(ep, "req"), self.mk_req(ep, "req")
                blob = m1.as_bytes() + m2.as_bytes()
                c1, c2 = len(m1.as_bytes()) + 12, len(m1.as_bytes()) + 42
                return self.push(ep, [(m1, "req"), (m2, "req")], chunks=[blob[:c1], blob[c1:c2], blob[c2:]])
            if act in ("wr_eagain", "wr_short"):
                ep.sock.send_plan.append(real_socket.error(errno.EAGAIN, "again") if act == "wr_eagain" else 3)
                return True
            if act == "dpr_req":
                return self.push(ep, [(B.dpr(origin, i, i), "dpr"), (self.mk_req(ep, "req"), "req")])
            if act == "half":
                if ep.partial:
                    return False
                m = self.mk_req(ep, "req")
                self._half_msg = m
                ep.partial = m.as_bytes()[:10]
                ep.last_rx = WORLD.now
                ep.sock.inq.append(ep.partial)
                self.settle()
                return True
            if act == "ans":
                out = [r for r in ep.node_reqs if not r[3]]
                if not out:
                    return False
                return self.push(ep, [(B.cca(origin, out[0][0], out[0][1]), act)])
            if act == "ans_unk":
                return self.push(ep, [(B.cca(origin, i, i), act)])
            if act in ("eof", "rst"):
                for e in self.eps:
                    e.ready_before = e.ready
                ep.sock.inq.append(b"" if act == "eof" else real_socket.error(errno.ECONNRESET, "reset"))
                ep.ended = True
                ep.partial = b""
                self.note_loss(ep)
                self.settle()
                return True
            raise KeyError(name)
        for e in self.eps:
            e.ready_before = e.ready
        if name == "accept":
            s = VSock(WORLD)
            ep = Ep(s, "in", None, WORLD.now)
            ep.ready_before = False
            self.eps.append(ep)
            self.b.listener.backlog.append(s)
            self.settle()
            return True
        if name == "dial1_early":
            # the TCP handshake of a dialled connection completes and the far end talks at once: its bytes are readable in the
            # same select round in which the socket becomes writable, and the reader thread runs as soon as they are queued
            if any(e.dir == "out" and e.dialled == P1 and e.open for e in self.eps):
                return False
            WORLD.connect_plan.append("inprogress")
            pre = len(self.eps)
            try:
                n._connect_to_peer(self.b.peers[0])
            except Exception as e:
                self.bad("C14", "_connect_to_peer raised %s" % type(e).__name__)
            self.register_dials()
            if len(self.eps) == pre:
                return False
            ep = self.eps[pre]
            ep.mine = True
            i = self.nid()
            WORLD.eager_reader = True
            try:
                return self.push(ep, [(B.dwr(P1, i, i), "dwr"), (self.mk_req(ep, "req"), "req")])
            finally:
                WORLD.eager_reader = False
        if name in ("dial1", "dial2", "dial1_refused"):
            peer = self.b.peers[1 if name == "dial2" else 0]
            pname = P2 if name == "dial2" else P1
            if any(e.dir == "out" and e.dialled == pname and e.open for e in self.eps):
                return False
            WORLD.connect_plan.append("refused" if name.endswith("refused") else "ok")
            pre = len(self.eps)
            try:
                n._connect_to_peer(peer)
            except Exception as e:
                self.bad("C14", "_connect_to_peer raised %s" % type(e).__name__)
            self.settle()
            for e in self.eps[pre:pre + 1]:
                e.mine = True               # asked for by the history, not a reconnect of the node's own
            return True
        if name in ("app_ans", "app_ans_new", "app_ans_again"):
            if name == "app_ans_again":
                if self.last_submitted is None:
                    return False
                k, ans, ep, ok_before = self.last_submitted
                expect_ok = False
            else:
                if not self.pending:
                    return False
                k, req, ep, rec = self.pending.pop(0 if name == "app_ans" else -1)
                ans = self.b.apps[k].generate_answer(req, result_code=2001)
                expect_ok = ep.ready and not rec["answers"]        # (the node has answered itself when the handler raised)
            before = sum(len(e.sock.out) for e in self.eps)
            raised = None
            try:
                self.b.apps[k].send_answer(ans)
            except B.NotRoutable:
                raised = "NotRoutable"
            except Exception as e:
                raised = type(e).__name__
            self.settle()
            sent = sum(len(e.sock.out) for e in self.eps) - before
            if expect_ok and (raised or not sent):
                self.bad("C09", "answer to a request of a ready connection was not transmitted (%s)" % raised)
            if not expect_ok and raised != "NotRoutable":
                self.bad("C09", "submitting an answer that cannot be routed (%s) raised %s instead of NotRoutable" % (
                    "second submission" if name == "app_ans_again" else "connection not ready / already answered", raised))
            if not expect_ok and sent:
                self.bad("C09", "an answer that cannot be routed was transmitted")
            if name != "app_ans_again":
                self.last_submitted = (k, ans, ep, expect_ok)
            return True
        if name in ("app_req0", "app_req1"):
            k = int(name[-1])
            app = self.b.apps[k]
            m = B.ccr(B.NODE_HOST, 0, 0)
            m.header.hop_by_hop_identifier = 0
            m.header.end_to_end_identifier = n.end_to_end_seq.next_sequence()
            eligible = [e for e in self.eps if e.ready and e.peer == (P1, P2)[k]]
            before = sum(len(e.sock.out) for e in self.eps)
            raised = None
            try:
                conn, _ = n.route_request(app, m)
                self.sent_reqs[(m.header.hop_by_hop_identifier, m.header.end_to_end_identifier)] = k
                n.send_message(conn, m)
            except B.NotRoutable:
                raised = "NotRoutable"
            except Exception as e:
                raised = type(e).__name__
            self.settle()
            sent = sum(len(e.sock.out) for e in self.eps) - before
            if not eligible and (raised != "NotRoutable" or sent):
                self.bad("C10", "no eligible ready peer: expected NotRoutable and nothing sent, got %s / %d bytes" % (raised, sent))
            if raised not in (None, "NotRoutable"):
                self.bad("C10", "send raised %s" % raised)
            return True
        if name in ("tick5", "tick25", "tick31"):
            dt = int(name[4:])
            pre = [(e, e.ready, list(e.dwr_out), e.open) for e in self.eps]
            WORLD.now += dt
            self.settle()
            for e, was_ready, dwr_before, was_open in pre:
                if not was_open:
                    continue
                it, dt_ = self.idle_timeout(e), self.dwa_timeout(e)
                if was_ready and not dwr_before and WORLD.now - e.last_rx > it and e.open and len(e.dwr_out) != 1:
                    self.bad("C11", "connection idle for %d s (timeout %d): expected exactly one DWR at the timer check, saw %d" % (
                        WORLD.now - e.last_rx, it, len(e.dwr_out)))
                if was_ready and dwr_before and WORLD.now - dwr_before[0][2] > dt_ and e.open:
                    self.bad("C11", "no DWA for %d s (timeout %d) but the connection is still open" % (WORLD.now - dwr_before[0][2], dt_))
                if was_ready and dwr_before and WORLD.now - dwr_before[0][2] < dt_ and not e.open:
                    self.bad("C11", "connection closed %d s after the DWR (DWA timeout %d)" % (WORLD.now - dwr_before[0][2], dt_))
                if not e.open and was_open:
                    e.ended = True
                    self.note_loss(e)
            self.check_reconnect()
            return True
        if name == "node_close_old":
            ep = next((e for e in self.eps if e.ready), None)
            c = self.conn_of(ep) if ep else None
            if c is None:
                return False
            n.close_connection_socket(c, B.DISCONNECT_REASON_UNKNOWN)
            ep.ended = True
            self.note_loss(ep)
            self.settle()
            return True
        if name == "handler_raises":
            for k, app in enumerate(self.b.apps):
                app.raise_next = True
                self.ref_raise[k] = True
            return True
        if name == "both_lag":
            # one request on each of two ready connections, read by the I/O thread in the same select round before either
            # reader thread runs
            two = [e for e in self.eps if e.ready and not e.partial][:2]
            if len(two) < 2:
                return False
            recs = []
            for e in two:
                m = self.mk_req(e, "req")
                before = set(e.reqs)
                self.note_in(e, m, "req")
                e.last_rx = WORLD.now
                e.sock.inq.append(m.as_bytes())
                recs.append((e, [e.reqs[k] for k in e.reqs if k not in before]))
            WORLD.defer_pump = 1
            self.settle()
            for e, rr in recs:
                self.after_push(e, rr)
            return True
        if name in ("reconn1", "reconn1_out"):
            # macro: peer1's newest connection is lost, and peer1 comes back (inbound with a CER / dialled by the history)
            ep = next((e for e in reversed(self.eps) if e.open and e.peer == P1), None)
            if ep is not None:
                self.trace.pop()
                self.apply("eof@" + ("new" if ep is self.target("new") else "old") if ep in (self.target("new"), self.target("old")) else "tick5")
            if name == "reconn1":
                self.apply("accept")
                ok = self.apply("cer1@new")
            else:
                self.apply("dial1")
                ok = self.apply("cea_ok@new")
            self.trace = self.trace[:-2] + [name] if len(self.trace) >= 2 else self.trace
            return ok
        raise KeyError(name)

    # ------------------------------------------------------------------ reconnect reference (C12)
    def note_loss(self, ep):
        peer = ep.peer
        if peer not in (P1, P2):
            return
        if ep.dir == "in" and ep.ce != "ok":
            return
        others = [e for e in self.eps if e is not ep and e.open and e.peer == peer and (e.dir == "out" or e.ce == "ok")]
        if others:
            self.multi.add(peer)
        else:
            self.loss[peer] = (WORLD.now, ep.dpr_rx or ep.dpr_tx)

    def check_reconnect(self):
        for peer in (P1, P2):
            has = [e for e in self.eps if e.open and e.peer == peer and (e.dir == "out" or e.ce == "ok")]
            if len(has) > 1:
                self.multi.add(peer)
            if not self.persistent or peer in self.multi or peer not in self.loss:
                continue
            auto_now = [e for e in self.eps if e.dir == "out" and e.dialled == peer and not getattr(e, "mine", False) and e.born == WORLD.now]
            t, after_dpr = self.loss[peer]
            wait = self.n.peers[peer].reconnect_wait
            due = WORLD.now - t >= wait and not after_dpr
            overdue = WORLD.now - t > wait and not after_dpr          # (at equality either reading of 'has elapsed' is accepted)
            had = [e for e in has if e.born < WORLD.now]
            if overdue and not had and not auto_now and not getattr(self, "stopping", False):
                self.bad("C12", "persistent peer %s lost its connection %d s ago (reconnect wait %d) and is not dialled" % (peer, WORLD.now - t, self.n.peers[peer].reconnect_wait))
            if auto_now and (not due or had):
                self.bad("C12", "peer %s dialled although %s" % (peer, "it has a connection" if had else ("its loss followed a DPR" if after_dpr else "the reconnect wait has not elapsed")))
        # non-persistent peers are never dialled by the node itself: every outbound endpoint must stem from a dial event
        auto = [e for e in self.eps if e.dir == "out" and not getattr(e, "mine", False)]
        if not self.persistent and auto:
            self.bad("C12", "a non-persistent peer was dialled by the node")

    # ------------------------------------------------------------------ invariants at quiescent points
    def tables(self):
        """C13: tables and readiness, evaluated on the node's state against the far ends' view"""
        n = self.n
        live = [c for c in H.ALL_CONNS if c.ident in n.connections and n.connections[c.ident] is c]
        for c in live:
            if c.state == B.PEER_CLOSED:
                return "closed connection %s still in node.connections" % c.ident
        for c in H.ALL_CONNS:
            if c in live:
                continue
            if any(v is c for v in n.socket_peers.values()):
                return "ended connection still in socket_peers"
            if any(v is c for v in n._half_ready_connections.values()):
                return "ended connection still in _half_ready_connections"
        for ep in self.eps:
            if ep.ended and WORLD.timed_out and not ep.sock.closed:
                return "the far end has gone but the socket is still open at quiescence"
            if ep.sock.closed and any(s is ep.sock for s in n.peer_sockets.values()):
                return "closed socket still in peer_sockets"
        for k, p in enumerate(self.b.peers):
            mine = [c for c in live if c.state != B.PEER_CLOSED and (c.host_identity == p.node_name or (c.is_sender and c.node_name == p.node_name))]
            if p.connection is not None and p.connection not in mine:
                return "peer.connection of %s references a connection that is not a live connection of that peer" % p.node_name
            if p.connection is None and any(c.state in B.PEER_READY_STATES for c in mine):
                return "a ready connection of %s exists but peer.connection is None" % p.node_name
            if p.connection is None and p.last_connect and (p.disconnect_reason is None or not p.last_disconnect):
                return "disconnected peer without disconnect reason/time"
            app = self.b.apps[k]
            ready_far = any(e.ready and e.peer == p.node_name for e in self.eps)
            anyconn = any(e.open and e.peer == p.node_name and (e.dir == "out" or e.ce == "ok") for e in self.eps)
            if ready_far and p.connection is not None and p.connection.state in B.PEER_READY_STATES and not app.is_ready.is_set():
                return "peer %s has a ready connection but its application reports not ready" % p.node_name
            if not anyconn and p.connection is None and app.is_ready.is_set():
                return "no connection of %s is left but its application reports ready" % p.node_name
        return ""

    def routing_offer(self):
        """what the node would offer for a request of each application right now (C10/C12: only ready connections of the
        application's own peer); the lookup's side effects (waiting-table entry) are undone"""
        n = self.n
        for k, app in enumerate(self.b.apps):
            m = B.ccr(B.NODE_HOST, 0, 0)
            m.header.hop_by_hop_identifier = 0
            m.header.end_to_end_identifier = 0xE0000000 + self.nid()
            try:
                conn, _ = n.route_request(app, m)
            except B.NotRoutable:
                continue
            except Exception as e:
                self.bad("C10", "route_request raised %s" % type(e).__name__)
                continue
            n._app_waiting_answer.pop("%d:%d" % (m.header.hop_by_hop_identifier, m.header.end_to_end_identifier), None)
            ep = next((e for e in self.eps if self.conn_of(e) is conn), None)
            if ep is None:
                self.bad("C10", "a connection that is in no table is offered for routing")
            elif not ep.ready:
                why = "has received a DPR" if ep.dpr_rx else ("has not completed its capabilities exchange" if ep.ce != "ok" else "is not ready")
                self.bad("C12" if ep.dpr_rx else "C10", "a connection that %s is offered for routing a request" % why)
                if ep.dpr_rx:
                    self.bad("C10", "a connection that %s is offered for routing a request" % why)
            elif ep.peer != (P1, P2)[k]:
                self.bad("C10", "a connection of %s is offered to the application configured for %s" % (ep.peer, (P1, P2)[k]))

    def quiescent_checks(self):
        r = self.tables()
        if r:
            self.bad("C13", r)
        self.routing_offer()

    # ------------------------------------------------------------------ end of history: everything still works, nothing is retained
    def probe(self):
        """C14: a peer that connects afterwards completes its capabilities exchange and is served"""
        who, k = (P2, 1) if not any(e.open and e.peer == P2 for e in self.eps) else (P1, 0)
        if any(e.open and e.dir == "out" and e.dialled == who for e in self.eps):
            return                       # an election would be lost: not a fresh peer
        nv = len(self.v)
        self.apply("accept")
        ep = self.eps[-1]
        i = self.nid()
        self.push(ep, [(B.cer(who, hbh=i, e2e=i), "cer")])
        if ep.ce_out != "ok":
            self.bad("C14", "a peer connecting after the history does not get a 2001 CEA")
            return
        app = self.b.apps[k]
        app.raise_next = False
        self.ref_raise[k] = False
        m = self.mk_req(ep, "req")
        self.push(ep, [(m, "req")])
        rec = ep.reqs[(m.header.hop_by_hop_identifier, m.header.end_to_end_identifier)]
        if rec["delivered"] != [k]:
            self.bad("C14", "request of a peer connecting after the history is not delivered to its application")
            return
        self.pending = [p for p in self.pending if p[2] is not ep]
        before = len(ep.sock.out)
        try:
            app.send_answer(app.generate_answer(app.requests[-1], result_code=2001))
        except Exception as e:
            self.bad("C14", "answering the request of a peer connecting after the history raised %s" % type(e).__name__)
        self.settle()
        if len(ep.sock.out) == before:
            self.bad("C14", "answer for a peer connecting after the history is not transmitted")
        # monitors of other properties that fire during the probe are attributed to C14 as well
        for j in range(nv, len(self.v)):
            if self.v[j][0] != "C14":
                self.v.append(("C14", "during the serve probe: " + self.v[j][1]))

    def warm_up(self):
        """one transaction of every kind from each peer, so that whatever the node may legitimately keep per configured realm /
        application / peer (a routing cache, a retransmission window per origin) exists in the compared runs alike"""
        for who in ("cer1", "cer2"):
            self.apply("accept")
            if not self.apply(who + "@new"):
                continue
            if not self.eps[-1].ready:
                continue
            for act in ("req", "req_bad", "req_realm", "req_app9", "reqT", "reqT_other", "dwr"):     # (one window per origin host seen: bounded by the relayed hosts, as documented)
                self.apply(act + "@new")
            for name in ("app_req0", "app_req1"):
                self.apply(name)

    def wind_down(self):
        """every pending request is answered (or refused), every connection ends"""
        self.warm_up()
        while self.pending:
            k, req, ep, rec = self.pending.pop(0)
            try:
                self.b.apps[k].send_answer(self.b.apps[k].generate_answer(req, result_code=2001))
            except Exception:
                pass
        self.settle()
        for ep in self.eps:
            if ep.open:
                ep.sock.inq.append(b"")
                ep.ended = True
        self.settle()
        WORLD.now += 1
        self.settle()


def run_history(init, names, persistent=False, prop=None, want_growth=False):
    u = Uni(init, persistent)
    u.quiescent_checks()
    for name in names:
        u.apply(name)
        u.quiescent_checks()
        if u.v and prop and any(p == prop for p, _ in u.v):
            break
    else:
        if prop in (None, "C14"):
            u.probe()
            u.quiescent_checks()
        if prop in (None, "C19") or want_growth:
            u.wind_down()
            u.quiescent_checks()
            u.final = growth_measure(u)
    return u


def growth_measure(u):
    from harness import C19

    class _H:
        pass
    h = _H()
    h.n = u.n
    m = C19.measure(h, ("requests", "answers"))          # RecApp's own recording lists
    return m


def history(ev: List[int]) -> bool:
    """
    pre: len(ev) == P["depth"] and all(0 <= e < len(EVENTS) for e in ev)
    pre: all(ev[i] == P["prefix"][i] for i in range(len(P["prefix"])))
    post: _
    """
    return history_body(ev, P)


def history_body(ev, P):
    hx.begin()
    names = [EVENTS[hx.concretize_range(e, 0, len(EVENTS))] for e in ev]
    prop = P["prop"]
    verdict = None
    try:
        with hx.untraced():
            u = run_history(P["init"], names, bool(P.get("persistent")), prop)
            mine = [t for p, t in u.v if p == prop]
            if not mine and prop == "C19":
                base = baseline(P["init"], bool(P.get("persistent")))
                diff = {k: (base.get(k), v) for k, v in u.final.items() if base.get(k, 0) != v and not k.endswith("app._answer_waiting")}
                if "c19_app_waiting_answer" in (P.get("carve") or ()):
                    diff.pop("node._app_waiting_answer", None)
                if diff:
                    mine = ["retained state differs from a node without this history: %s" % sorted(diff.items())[:4]]
            if mine:
                verdict = mine[0]
    except Exception as e:
        import traceback
        verdict = "harness/monitor raised %s: %s %s" % (type(e).__name__, str(e)[:100], traceback.format_exc()[-300:].replace("\n", " | "))
    if verdict is not None:
        return hx.check((ev,), (names, verdict), (names, ""), verdict[:200])
    return hx.holds((ev,), True, (names,), "")


_BASE = {}


def baseline(init, persistent):
    key = (init, persistent)
    if key not in _BASE:
        for fn in hx.RESETTERS:
            fn()
        u = run_history(init, [], persistent, "C19")
        _BASE[key] = u.final
    return _BASE[key]


QUICK_INITS = {
    "C05": ["in1", "in1_in2", "in1_pend"], "C06": ["fresh", "out1", "in1", "in1_out2"], "C07": ["in1", "in1_pend", "in1_answered", "out1"], "C08": ["in1", "in1_in2", "in1_pend", "in1_answered"],
    "C09": ["in1_pend", "in1_in1", "in1_in2", "in1_dwr"], "C10": ["in1", "in1_out2", "in1_dwr", "in1_in1"], "C11": ["in1", "in1_dwr", "out1", "in1_in2"],
    "C12": ["in1", "in1_dwr", "out1", "in1_in1"], "C13": ["fresh", "in1_in1", "in1_out2", "in1_in2"], "C14": ["in1", "in1_pend", "fresh", "in1_in1"],
    "C15": ["in1_pend", "in1", "out1"], "C17": ["in1_answered", "in1", "in1_pend", "in1_in1"], "C19": ["in1", "in1_pend", "in1_answered", "in1_out2"],
    "C20": ["in1", "out1"]}


def specs(prop, tier, seed, timeout=900):
    """quick: every 2-event history from the 2-4 initial states closest to the property (persistent peers for C12);
    thorough: every 2-event history from all 9 initial states, peers persistent and not, plus every 3-event history for a seeded
    sample of 48 (initial state, first event) pairs"""
    import random
    rnd = random.Random(seed)
    out = []
    ne = len(EVENTS)

    def ob(init, pers, depth, prefix):
        tag = "uni/%s%s/d%d" % (init, "/persistent" if pers else "", depth) + "".join("/" + EVENTS[f] for f in prefix)
        return dict(id=tag, fn="uni_history", keep_logging=True, params={"prop": prop, "init": init, "depth": depth, "prefix": list(prefix), "persistent": pers},
                    timeout=timeout * (1 if depth == 2 else 3),
                    bound="every %d-event wire-level history over %d events%s from initial state '%s' (%s peers); monitor of %s after every event" % (
                        depth, ne, (" starting with " + ",".join(EVENTS[f] for f in prefix)) if prefix else "", init, "persistent" if pers else "non-persistent", prop))
    if tier == "quick":
        for init in QUICK_INITS[prop]:
            out.append(ob(init, prop == "C12", 2, []))
        return out
    for init in INITS:
        for pers in (False, True):
            out.append(ob(init, pers, 2, []))
    for _ in range(48):
        out.append(ob(rnd.choice(INITS), rnd.random() < 0.3, 3, [rnd.randrange(ne)]))
    seen = set()
    return [o for o in out if not (o["id"] in seen or seen.add(o["id"]))]
