"""Socket-level history driver: event sequences through the real Node._handle_connections on the virtual world.
Shared by C12, C13, C19 (and C18's set-up).  Every event changes the world (bytes / EOF / error queued on a virtual
socket, a connection in the listener's backlog, a connect outcome, a clock advance) and then `settle()`s: real I/O-loop
iterations and real worker bodies run until the next select would time out."""
import errno
import socket as real_socket
from engine import hx
from engine.env import WORLD, VSock
from harness import bench as B

EVENTS = ["accept", "cer_known", "cer_unknown", "cer_nocommon", "dial_ok", "dial_refused", "dial_inprog_ok", "dial_inprog_fail",
          "cea_ok", "cea_reject", "dpr_old", "gone_new", "gone_old", "err_new", "tick", "close_old"]
PEER = B.PEER_HOSTS[0]
ALL_CONNS = []
_orig_init = B.PeerConnection.__init__


def _tracking_init(self, *a, **k):
    _orig_init(self, *a, **k)
    ALL_CONNS.append(self)


B.PeerConnection.__init__ = _tracking_init
hx.RESETTERS.append(lambda: ALL_CONNS.clear())


class Hist:
    def __init__(self, init="fresh", persistent=True, n_peers=1, stats=False):
        self.b = B.Bench(n_peers=n_peers, persistent=persistent, stats=stats)
        self.n = self.b.node
        self.p = self.b.peers[0]
        self.app = self.b.apps[0]
        self.socks = {}              # id(conn) -> VSock
        self.hbh = 1000
        self.dial_times = []
        if init == "ready_inbound":
            self.ev_accept()
            self.ev_cer(PEER, [4])
        elif init == "ready_outbound":
            self.ev_dial("ok")
            self.ev_cea(2001)
        WORLD.dialled.clear()

    # ---- helpers
    def settle(self):
        WORLD.settle(self.n)
        for c in ALL_CONNS:
            if id(c) not in self.socks:
                s = self.n.peer_sockets.get(c.ident)
                if s is not None:
                    self.socks[id(c)] = s

    def live(self):
        return [c for c in ALL_CONNS if c.ident in self.n.connections and self.n.connections[c.ident] is c]

    def newest(self, pred=lambda c: True):
        for c in reversed(self.live()):
            if pred(c):
                return c
        return None

    def oldest(self, pred=lambda c: True):
        for c in self.live():
            if pred(c):
                return c
        return None

    def _push(self, c, data):
        s = self.n.peer_sockets.get(c.ident)
        if s is None:
            return False
        s.inq.append(data)
        self.settle()
        return True

    # ---- events
    def ev_accept(self):
        s = VSock(WORLD)
        self.b.listener.backlog.append(s)
        self.settle()

    def ev_cer(self, origin, apps):
        c = self.newest(lambda c: c.is_receiver and c.state == B.PEER_CONNECTED and not c.host_identity)
        if c is None:
            return False
        self.hbh += 1
        return self._push(c, B.cer(origin, apps=apps, hbh=self.hbh, e2e=self.hbh).as_bytes())

    def ev_dial(self, plan):
        WORLD.connect_plan.append("ok" if plan == "ok" else ("refused" if plan == "refused" else "inprogress"))
        pre = len(ALL_CONNS)
        try:
            self.n._connect_to_peer(self.p)
        except Exception:
            raise
        if len(ALL_CONNS) > pre and plan in ("inprog_fail",):
            s = self.n.peer_sockets.get(ALL_CONNS[-1].ident)
            if s is not None:
                s.so_error = errno.ECONNREFUSED
        self.settle()
        return True

    def ev_cea(self, result):
        c = self.newest(lambda c: c.is_sender and c.state == B.PEER_CONNECTED)
        if c is None:
            return False
        self.hbh += 1
        return self._push(c, B.cea(PEER, result=result, hbh=self.hbh, e2e=self.hbh).as_bytes())

    def ev_dpr(self):
        c = self.oldest(lambda c: c.state in B.PEER_READY_STATES)
        if c is None:
            return False
        self.hbh += 1
        ok = self._push(c, B.dpr(PEER, self.hbh, self.hbh).as_bytes())
        return ok

    def ev_gone(self, c):
        if c is None:
            return False
        return self._push(c, b"")

    def ev_err(self, c):
        if c is None:
            return False
        return self._push(c, real_socket.error(errno.ECONNRESET, "reset"))

    def ev_tick(self, secs=5):
        WORLD.advance(self.n, secs)
        return True

    def ev_close(self):
        c = self.oldest(lambda c: c.state in B.PEER_READY_STATES)
        if c is None:
            return False
        self.n.close_connection_socket(c, B.DISCONNECT_REASON_UNKNOWN)
        self.settle()
        return True

    def apply(self, name):
        if name == "accept":
            return self.ev_accept()
        if name == "cer_known":
            return self.ev_cer(PEER, [4])
        if name == "cer_unknown":
            return self.ev_cer("stranger.local.realm", [4])
        if name == "cer_nocommon":
            return self.ev_cer(PEER, [9])
        if name.startswith("dial_"):
            return self.ev_dial(name[5:])
        if name == "cea_ok":
            return self.ev_cea(2001)
        if name == "cea_reject":
            return self.ev_cea(5010)
        if name == "dpr_old":
            return self.ev_dpr()
        if name == "gone_new":
            return self.ev_gone(self.newest())
        if name == "gone_old":
            return self.ev_gone(self.oldest())
        if name == "err_new":
            return self.ev_err(self.newest())
        if name == "tick":
            return self.ev_tick()
        if name == "close_old":
            return self.ev_close()
        raise KeyError(name)
