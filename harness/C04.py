"""C04 - decoding hostile bytes terminates and raises only the library's decode errors."""
from engine import hx
from diameter.message import Message, MessageHeader
from diameter.message.avp import avp as A
from diameter.message.avp import Avp, AvpGrouped
from diameter.message.avp.errors import AvpDecodeError
from diameter.message.packer import Unpacker, ConversionError
from diameter.message.packer import Error as PackerError
from diameter.message.avp.dictionary import AVP_DICTIONARY, AVP_VENDOR_DICTIONARY
from harness.C01 import be, be_at

PROPERTY = "C04"
P = {}
FUNCTIONS_ENCODED = ["Unpacker.unpack_uint/unpack_fstring/is_done", "raise_conversion_error", "Avp.from_unpacker", "Avp.from_bytes",
                     "every typed value getter (Address, Float32/64, Grouped, Integer32/64, OctetString, Unsigned32/64, UTF8String, Time)",
                     "Avp.__str__", "MessageHeader.from_bytes", "MessageHeader.__str__", "Message.from_bytes", "Message.__str__",
                     "assign_attr_from_defs", "UndefinedMessage._assign_attr_values", "__post_init__ of CER/CCR/DWA"]
STUBS = ["io.BytesIO -> pure-Python buffer (symbolic runs)", "format() of symbolic scalars -> placeholder (opaque-format mode: sound for 'does not raise', text not inspected)",
         "datetime.datetime in avp.py -> seconds-carrying double (symbolic runs)", "inet_ntop/inet_pton arguments realised"]
ASSUMPTIONS = ["'time linear in the input' is not decided (complexity claim): replaced by termination within the bound and a strictly increasing cursor",
               "library decode errors = AvpDecodeError, packer.ConversionError (and its base packer.Error)"]
BOUNDS = {"quick": "Avp.from_bytes: every buffer <= 20 B per dictionary type class (class-representative code, all flag octets / length fields / payloads); short buffers < 8 B fully symbolic; cursor over two back-to-back AVPs <= 24 B; grouped payload nesting <= 3 with symbolic inner length fields; Message.from_bytes: every 20-byte header x tail <= 12 B on unknown, generic and 3 typed classes",
          "thorough": "buffers <= 28 B, nesting <= 4, tails <= 16 B"}
OUTSIDE = ["time linear in the input", "buffers > 28 bytes", "nesting 5..16", "bit-flips of large valid messages (subsumed only up to the buffer bound)"]


def _reps():
    r = {}
    for c, e in AVP_DICTIONARY.items():
        r.setdefault(e["type"].__name__, (c, 0))
    for v, d in AVP_VENDOR_DICTIONARY.items():
        for c, e in d.items():
            r.setdefault(e["type"].__name__, (c, v))
    r["Avp"] = (0xfffffff0, 0)
    return r


REPS = _reps()
ALLOWED = (AvpDecodeError, PackerError)


SYMREG = None


def setup(p):
    global SYMREG
    if hx.SYMBOLIC:
        from engine import stubs, symtab
        import diameter.message._base as base
        import diameter.message.commands as cmds
        stubs.install_datetime_double()
        if SYMREG is None:
            SYMREG = symtab.SymKeyDict(cmds.all_commands)
        base.all_commands = SYMREG


def _classify(fn):
    try:
        fn()
        return "ok"
    except ALLOWED:
        return "decode-error"
    except Exception as e:
        return "ESCAPED:" + type(e).__name__


# ----------------------------------------------------------------------------- 1. one AVP of a given dictionary class
def avp_hostile(buf: bytes) -> bool:
    """
    pre: len(buf) == P["n"]
    pre: be_at(buf, 0, 4) == P["code"]
    pre: (P["vendor"] == 0 and buf[4] < 128) or (P["vendor"] != 0 and buf[4] >= 128 and len(buf) >= 12 and be_at(buf, 8, 4) == P["vendor"])
    pre: P["flat"] < 0 or P["n"] <= P["flat"] or (buf[P["flat"]] in (0, 0x7f, 0xff) and all(buf[k] == buf[P["flat"]] for k in range(P["flat"] + 1, P["n"])))
    post: _
    """
    hx.begin()
    box = {}

    def dec():
        box["a"] = Avp.from_bytes(buf)
    r1 = _classify(dec)
    if r1 != "ok":
        return hx.check((buf,), (r1,), ("decode-error",), "Avp.from_bytes raised something else than the library's decode errors")
    a = box["a"]
    r2 = _classify(lambda: a.value)
    r3 = _classify(lambda: str(a))
    tn = type(a).__name__
    return hx.holds((buf,), tn == P["cls"] and r2 in ("ok", "decode-error") and r3 == "ok", (tn, r2, r3),
                    "reading .value must return or raise AvpDecodeError; str(avp) must not raise")


def avp_short(buf: bytes) -> bool:
    """
    pre: len(buf) < 8
    post: _
    """
    hx.begin()
    r = _classify(lambda: Avp.from_bytes(buf))
    return hx.check((buf,), (r,), ("decode-error",), "truncated AVP header")


# ----------------------------------------------------------------------------- 2. cursor discipline over a buffer of AVPs
def cursor(buf: bytes) -> bool:
    """
    pre: len(buf) == P["n"]
    pre: len(buf) < 4 or be_at(buf, 0, 4) >= 0xf0000000
    pre: len(buf) < 20 or all(be_at(buf, k, 4) >= 0xf0000000 for k in range(8, len(buf) - 3, 4))
    post: _
    """
    hx.begin()
    u = Unpacker(buf)
    n = len(buf)
    last = 0
    count = 0
    verdict = "ok"
    try:
        while not u.is_done():
            Avp.from_unpacker(u)
            pos = u.get_position()
            count += 1
            if pos <= last or pos > n + 3 or count > n:
                verdict = "cursor:%d after %d" % (pos, last)
                break
            last = pos
    except ALLOWED:
        verdict = "decode-error"
    except Exception as e:
        verdict = "ESCAPED:" + type(e).__name__
    # position may overshoot only by being set before an EOF check fails (then an error was raised)
    ok = verdict == "decode-error" or (verdict == "ok" and last <= n)
    return hx.holds((buf,), ok, (verdict if verdict != "ok" else "ok", ), "cursor must strictly increase per AVP and never pass the end of the buffer")


# ----------------------------------------------------------------------------- 3. grouped payloads with hostile inner length fields
def _walk(a, depth):
    """read values recursively like UndefinedMessage/_dump do"""
    if depth > 8:
        return
    v = a.value
    if isinstance(a, AvpGrouped):
        for k in v:
            _walk(k, depth + 1)


def grouped_hostile(l1: int, f1: int, l2: int, f2: int, l3: int, tail: bytes) -> bool:
    """
    pre: 0 <= l1 <= 0xffffff and 0 <= l2 <= 0xffffff and 0 <= l3 <= 0xffffff and 0 <= f1 <= 255 and 0 <= f2 <= 255 and len(tail) <= 4
    post: _
    """
    hx.begin()
    G = REPS["AvpGrouped"][0]
    nest = P["nest"]
    inner = be(0xfffffff0, 4) + bytes([0]) + be(l3, 3) + tail
    if nest >= 3:
        inner = be(G, 4) + bytes([f2 % 128]) + be(l2, 3) + inner
    if nest >= 4:
        inner = be(G, 4) + bytes([0x40]) + be(l2, 3) + inner
    buf = be(G, 4) + bytes([f1 % 128]) + be(l1, 3) + inner
    box = {}

    def dec():
        box["a"] = Avp.from_bytes(buf)
    r1 = _classify(dec)
    if r1 != "ok":
        return hx.check((l1, f1, l2, f2, l3, tail), (r1,), ("decode-error",), "outer grouped AVP")
    r2 = _classify(lambda: _walk(box["a"], 0))
    r3 = _classify(lambda: str(box["a"]))
    r4 = _classify(lambda: _walk(box["a"], 0))          # reading again (also after the rendering) gives the same verdict: a malformed
    r5 = _classify(lambda: str(box["a"]))               # payload raises on every read, it does not turn into a partial value
    return hx.holds((l1, f1, l2, f2, l3, tail), r2 in ("ok", "decode-error") and r3 == "ok" and r4 == r2 and r5 == "ok", (r2, r3, r4, r5),
                    "nested grouped decode must return or raise AvpDecodeError - on every read")


DEPTHS = [1, 2, 5, 16, 100, 330, 400, 1000, 3000]
MSG_KINDS = [("unknown command", 9999999, 0x80), ("DWR", 280, 0x80), ("CCR", 272, 0x80), ("unknown answer", 9999998, 0), ("plain", 280, 0x80)]


def deep_nest(di: int, ki: int, leaf: int, cut: bool) -> bool:
    """
    pre: 0 <= di < len(DEPTHS) and 0 <= ki < len(MSG_KINDS) and 0 <= leaf <= 2
    post: _
    """
    hx.begin()
    # a message whose single AVP is a Grouped AVP nested DEPTHS[di] levels deep (8 bytes per level: 3000 levels are a 24 KB
    # message any peer can send).  All inputs are choices, fixed first; the decode runs natively (tracing a 3000-deep recursion
    # is beyond CrossHair, and the interpreter's recursion limit is the subject)
    depth = DEPTHS[hx.concretize_range(di, 0, len(DEPTHS))]
    kname, code, flags = MSG_KINDS[hx.concretize_range(ki, 0, len(MSG_KINDS))]
    lf = [b"", b"\x00\x00\x00\x01", b"\xff"][hx.concretize_range(leaf, 0, 3)]
    cut = bool(hx.concretize(cut))
    inputs = (di, ki, leaf, cut)
    G = REPS["AvpGrouped"][0]
    with hx.untraced():
        body = be(0xfffffff0, 4) + bytes([0]) + be(8 + len(lf), 3) + lf + b"\x00" * ((-len(lf)) % 4)
        for _ in range(depth):
            body = be(G, 4) + bytes([0x40]) + be(8 + len(body), 3) + body
        if cut:
            body = body[:-3]                     # and the innermost levels are truncated
            body = body[:5] + be(len(body), 3) + body[8:]
        buf = bytes([1]) + be(20 + len(body), 3) + bytes([flags]) + be(code, 3) + b"\x00" * 12 + body
        box = {}

        def dec():
            box["m"] = Message.from_bytes(buf, plain_msg=(kname == "plain"))
        r1 = _classify(dec)
        r2 = r3 = r4 = "ok"
        if r1 == "ok":
            m = box["m"]
            r2 = _classify(lambda: [str(a) for a in m.avps])
            r3 = _classify(lambda: str(m.header))
            r4 = _classify(lambda: [a.value for a in m.avps])
    return hx.holds(inputs, r1 in ("ok", "decode-error") and r2 == "ok" and r3 == "ok" and r4 in ("ok", "decode-error"), (r1, r2, r3, r4),
                    "a deeply nested Grouped AVP (%d levels, %s): decoding returns or raises a library decode error; rendering never raises" % (depth, kname))


# ----------------------------------------------------------------------------- 4. whole messages
def msg_hostile(hdr: bytes, tail: bytes) -> bool:
    """
    pre: len(hdr) == 20 and len(tail) == P["tail"]
    pre: P["code"] < 0 or be_at(hdr, 5, 3) == P["code"]
    pre: P["code"] >= 0 or (be_at(hdr, 5, 3) >= 1000 and be_at(hdr, 5, 3) < 8388608)
    pre: P["rbit"] < 0 or (hdr[4] >= 128) == (P["rbit"] == 1)
    pre: len(tail) < 4 or be_at(tail, 0, 4) in P["avp_codes"]
    pre: P["opaquefmt"] or len(tail) < 5 or tail[4] < 128
    post: _
    """
    hx.begin()
    buf = hdr + tail
    box = {}

    def dec():
        box["m"] = Message.from_bytes(buf)
    r1 = _classify(dec)
    if r1 != "ok":
        return hx.check((hdr, tail), (r1,), ("decode-error",), "Message.from_bytes raised something else than the library's decode errors")
    m = box["m"]
    if not P["opaquefmt"]:
        return hx.holds((hdr, tail), True, (type(m).__name__,), "")
    r2 = _classify(lambda: str(m))
    r3 = _classify(lambda: str(m.header))
    r4 = _classify(lambda: [str(a) for a in m.avps])
    return hx.holds((hdr, tail), r2 == "ok" and r3 == "ok" and r4 == "ok", (type(m).__name__, r2, r3, r4), "rendering a decoded message/header/AVP must not raise")


def msg_prefix(cut: int) -> bool:
    """
    pre: 0 <= cut <= len(VALID)
    post: _
    """
    hx.begin()
    k = hx.concretize_range(cut, 0, len(VALID) + 1)
    r = _classify(lambda: Message.from_bytes(VALID[:k]))
    return hx.holds((cut,), r in ("ok", "decode-error"), (r,), "every prefix of a valid message decodes or raises a decode error")


def _valid():
    from diameter.message.commands import CapabilitiesExchangeRequest
    m = CapabilitiesExchangeRequest()
    m.origin_host = b"a.b"
    m.origin_realm = b"b"
    m.host_ip_address = ["10.0.0.1"]
    m.vendor_id = 1
    m.product_name = "p"
    m.auth_application_id = [4]
    return m.as_bytes()


VALID = _valid()


def repro_address():
    """kept for the record of the repaired defect: AvpAddress.value on a malformed payload"""
    try:
        Avp.from_bytes(bytes.fromhex("0000010140000009" + "00" * 4)).value
    except AvpDecodeError:
        return False, "AvpDecodeError"
    except Exception as e:
        return True, type(e).__name__
    return False, "no error"


def specs(tier, seed, carve):
    q = tier == "quick"
    out = []
    for cls, (code, vendor) in sorted(REPS.items()):
        hl = 12 if vendor else 8
        maxpay = {"AvpUtf8String": 3 if q else 6, "AvpGrouped": 6 if q else 16, "AvpAddress": 6 if q else 20}.get(cls, 8 if q else 20)
        pays = [p_ for p_ in ((0, 1, 3, 4, 5, 6, 8) if q else range(0, 21)) if p_ <= maxpay]
        flat = {"AvpFloat32": hl, "AvpFloat64": hl, "AvpAddress": hl + 2}.get(cls, -1)
        for pay in pays:
            out.append(dict(id="avp_hostile/%s/len%d" % (cls, hl + pay), fn="avp_hostile",
                            params={"cls": cls, "code": code, "vendor": vendor, "n": hl + pay, "flat": flat, "opaquefmt": True},
                            timeout=200 if q else 1500, path_timeout=30,
                            bound="every %d-byte buffer whose code%s selects dictionary class %s (representative %d/%d): all flag octets, all 24-bit length fields, %s" % (
                                hl + pay, "/vendor" if vendor else "", cls, code, vendor,
                                "content bytes all equal to one of 00/7f/ff (content is realised at struct/inet_ntop/hex: class representatives)" if flat >= 0 else "all payload bytes")))
    out.append(dict(id="avp_short", fn="avp_short", params={}, timeout=60, bound="every buffer shorter than 8 bytes"))
    for n in ((0, 1, 7, 8, 9, 11) if q else (0, 1, 4, 7, 8, 9, 11, 12, 13, 15, 16, 17, 20, 24)):
        out.append(dict(id="cursor/len%d" % n, fn="cursor", params={"n": n}, timeout=300 if q else 1500, path_timeout=30,
                        bound="every %d-byte buffer read as a sequence of AVPs (unknown codes): all flag octets and length fields" % n))
    for nest in ((2,) if q else (2, 3, 4)):
        out.append(dict(id="grouped_hostile/nest%d" % nest, fn="grouped_hostile", params={"nest": nest, "opaquefmt": True}, timeout=300 if q else 2400, path_timeout=30,
                        bound="grouped AVP nesting %d: every 24-bit outer/inner length field, flag octets, innermost tail <= 4 B" % nest))
    out.append(dict(id="deep_nest", fn="deep_nest", params={}, timeout=600,
                    bound="one Grouped AVP nested %s levels deep (innermost AVP empty / 4 bytes / 1 byte, complete or truncated) in a message of an unknown command, DWR, CCR, an unknown answer, and decoded with plain_msg" % DEPTHS))
    kinds = [("unknown", -1, -1, [0xfffffff0, 264, 257], True), ("generic283", 283, -1, [0xfffffff0, 264, 443], True),
             ("CER", 257, 1, [264, 257, 260, 258], False), ("DWA", 280, 0, [268, 264, 279, 278], False), ("CCR", 272, 1, [263, 456, 443, 416], False)]
    tails = (0, 3, 8) if q else (0, 1, 3, 7, 8, 9, 11, 12, 13, 16)
    for nm, code, rbit, codes, opq in kinds:
        for tl in tails:
            out.append(dict(id="msg_hostile/%s/tail%d" % (nm, tl), fn="msg_hostile", params={"code": code, "rbit": rbit, "tail": tl, "avp_codes": codes, "opaquefmt": opq},
                            timeout=300 if q else 2400, path_timeout=40,
                            bound="every 20-byte header (class %s) x every %d-byte tail whose first AVP code is one of %s (declared scalar / grouped / address / undeclared)%s" % (
                                nm, tl, codes, "" if opq else "; first AVP without V flag (attribute keys are text: no opaque formatting here)")))
    out.append(dict(id="msg_prefix", fn="msg_prefix", params={}, timeout=120, bound="every prefix of a valid %d-byte CER" % len(VALID)))
    return out
