"""C19 - per-transaction and per-connection state is released; nothing grows with use."""
from collections import deque
from typing import List
from engine import hx
from engine.env import STUBS, WORLD, VSock  # noqa: F401
from harness import bench as B
from harness import hist as H

PROPERTY = "C19"
P = {}
FUNCTIONS_ENCODED = ["Node._receive_message", "Node._receive_app_request/_receive_app_answer", "Node.route_request/route_answer/send_message/_record_answer",
                     "Node.remove_peer_connection/close_connection_socket", "Node._add_peer_connection", "Node._connect_to_peer", "Node._handle_connections",
                     "Application.send_answer", "PeerConnection.close", "PeerStats/SecondSlotCounter (real, concrete clock)"]
ASSUMPTIONS = ["inductive step instead of N = 1000: after a warm-up in which every kind of transaction/connection attempt has happened once, two further ones of symbolic kinds leave every container size and the live-thread count unchanged",
               "containers with a maxlen (documented fixed-size windows) are checked against their bound instead", "Application.send_request's blocking wait is not part of this check (C10): outbound requests are sent with route_request/send_message"]
BOUNDS = {"quick": "after the warm-up: every pair of the 23 operations (12 transaction kinds, 11 connection-attempt outcomes); 1 peer", "thorough": "every triple"}
OUTSIDE = ["N = 1000 runs (replaced by the inductive step)", "2 peers"]
PEER = B.PEER_HOSTS[0]

OPS = ["in_req_retransmit_rejected", "conn_while_stopping", "in_req_answered", "in_req_rejected_app", "in_req_rejected_avp", "in_req_rejected_realm", "out_req_answered", "dwr_in", "dwr_out",
       "conn_inbound_then_gone", "conn_unknown_peer", "conn_cer_nocommon", "conn_dial_refused", "conn_dial_async_fail", "conn_dial_cea_rejected",
       "conn_dial_ok_then_closed", "conn_second_of_connected_peer", "conn_silent_until_timeout",
       "in_req_then_conn_gone", "out_req_then_conn_gone", "conn_unknown_peer_fresh_name", "in_req_dpr_answer_refused", "stranger_bad_cer_conn_stays_open", "conn_dial_no_socket"]


def measure(h, skip):
    """sizes of every container reachable from the node, its peers and applications + live worker threads"""
    out = {}

    def walk(name, v, depth=0):
        if isinstance(v, deque) and v.maxlen is not None:
            if len(v) > v.maxlen:
                out[name + "!over-maxlen"] = len(v)
            return
        if isinstance(v, dict):
            nested = [x for x in v.values() if isinstance(x, (dict, list, set, deque))]
            if nested and len(nested) == len(v):
                # dict of containers keyed by peer/origin/realm (bounded by the configuration): count what they hold
                out[name + "[]"] = 0
                # keys that are neither a live connection nor a configured peer/realm name: whatever peers chose to send
                out[name + "#foreign_keys"] = sum(1 for k in v if k not in allowed)
                if depth < 2:
                    for x in nested:
                        walk(name + "[]", x, depth + 1)
            else:
                out[name] = out.get(name, 0) + len(v)
        elif isinstance(v, (list, set, tuple)) and not isinstance(v, str):
            out[name] = out.get(name, 0) + len(v)

    nn = h.n
    allowed = set(nn.connections) | set(nn.peers) | {p.encode() for p in nn.peers} | set(nn._peer_routes) | {nn.origin_host, nn.origin_host.encode()}

    def obj(prefix, o):
        for k, v in vars(o).items():
            if k in skip:
                continue
            if isinstance(v, (dict, list, set, deque)):
                walk(prefix + k, v)
    n = h.n
    obj("node.", n)
    for p in n.peers.values():
        obj("peer.", p)
    for a in n.applications:
        obj("app.", a)
    out["live_threads"] = sum(1 for t in WORLD.started if not t.is_stopped)
    out["open_sockets"] = sum(1 for s in WORLD.socks if not s.closed)
    return out


class Driver(H.Hist):
    def __init__(self):
        super().__init__(init="ready_inbound", persistent=False, stats=True)
        self.seq = 5000
        self.n.cer_timeout = 4

    def main_conn(self):
        c = self.p.connection
        if c is None or c.ident not in self.n.connections:
            self.ev_accept()
            self.ev_cer(PEER, [4])
            c = self.p.connection
        return c

    def stranger_conn(self):
        """exactly one connection of a not yet identified peer is kept open (pre-CE), so that both measurements see the same
        number of connections"""
        c = getattr(self, "_stranger", None)
        if c is None or c.ident not in self.n.connections:
            self.ev_accept()
            c = self.newest(lambda x: x.state == B.PEER_CONNECTED and not x.host_identity)
            self._stranger = c
        return c

    def nid(self):
        self.seq += 1
        return self.seq

    def op(self, name):
        n, app = self.n, self.app
        c = self.main_conn()
        i = self.nid()
        if name == "in_req_answered":
            self._push(c, B.ccr(PEER, i, i).as_bytes())
            app.send_answer(app.generate_answer(app.requests[-1], result_code=2001))
            self.settle()
        elif name == "in_req_retransmit_rejected":
            self._push(c, B.ccr(PEER, i, i).as_bytes())
            app.send_answer(app.generate_answer(app.requests[-1], result_code=2001))
            self.settle()
            j = self.nid()
            self._push(c, B.ccr(PEER, j, i, flags_extra=0x10).as_bytes())       # failover retransmission: T flag, same end-to-end id
        elif name == "in_req_rejected_app":
            self._push(c, B.ccr(PEER, i, i, app=9).as_bytes())
        elif name == "in_req_rejected_avp":
            m = B.ccr(PEER, i, i)
            m.cc_request_type = None
            self._push(c, m.as_bytes())
        elif name == "in_req_rejected_realm":
            self._push(c, B.ccr(PEER, i, i, realm="elsewhere.realm").as_bytes())
        elif name == "out_req_answered":
            req = B.ccr(B.NODE_HOST, 0, i)
            conn, _ = n.route_request(app, req)
            n.send_message(conn, req)
            self.settle()
            self._push(c, B.cca(PEER, req.header.hop_by_hop_identifier, i).as_bytes())
        elif name == "dwr_in":
            self._push(c, B.dwr(PEER, i, i).as_bytes())
        elif name == "dwr_out":
            n.send_dwr(c)
            self.settle()
            self._push(c, B.dwa(PEER, i, i).as_bytes())
        elif name == "conn_inbound_then_gone":
            # the main connection is closed by the peer and a new one is established
            self.ev_gone(c)
            self.main_conn()
        elif name == "conn_unknown_peer":
            self.ev_accept()
            self.ev_cer("stranger.local.realm", [4])
            self.settle()
        elif name == "conn_unknown_peer_fresh_name":
            self.ev_accept()
            self.ev_cer("stranger%d.local.realm" % i, [4])          # every refused stranger under a name never seen before
            self.settle()
        elif name == "in_req_then_conn_gone":
            # the connection ends while the application still owes the answer; the late answer can no longer be routed
            self._push(c, B.ccr(PEER, i, i).as_bytes())
            pending = app.requests[-1] if app.requests else None
            self.ev_gone(c)
            self.main_conn()
            if pending is not None:
                try:
                    app.send_answer(app.generate_answer(pending, result_code=2001))
                except Exception:
                    pass
                self.settle()
        elif name == "stranger_bad_cer_conn_stays_open":
            # a CER without its required Product-Name on the stranger's open connection: answered 5005, connection stays
            sc = self.stranger_conn()
            m = B.cer("stranger%d.local.realm" % i, hbh=i, e2e=i)
            m.product_name = None
            self._push(sc, m.as_bytes())
            B.drain(sc)
        elif name == "in_req_dpr_answer_refused":
            # the requester asks to disconnect while the application still owes the answer: the answer is refused (NotRoutable),
            # then the connection ends
            self._push(c, B.ccr(PEER, i, i).as_bytes())
            pending = app.requests[-1] if app.requests else None
            j = self.nid()
            self._push(c, B.dpr(PEER, j, j).as_bytes())
            if pending is not None:
                try:
                    app.send_answer(app.generate_answer(pending, result_code=2001))
                except Exception:
                    pass
                self.settle()
            self.ev_gone(c)
            self.main_conn()
        elif name == "out_req_then_conn_gone":
            req = B.ccr(B.NODE_HOST, 0, i)
            conn, _ = n.route_request(app, req)
            n.send_message(conn, req)
            self.settle()
            self.ev_gone(c)
            self.main_conn()
        elif name == "conn_cer_nocommon":
            self.ev_accept()
            self.ev_cer(PEER, [9])
            self.ev_gone(self.newest(lambda x: x.state == B.PEER_CONNECTED))
        elif name == "conn_while_stopping":
            n._stopping = True
            try:
                self.ev_accept()
            finally:
                n._stopping = False
        elif name == "conn_silent_until_timeout":
            self.ev_accept()
            self.ev_tick(5)
        elif name == "conn_second_of_connected_peer":
            self.ev_accept()
            self.ev_cer(PEER, [4])
            self.ev_gone(self.newest())
        elif name.startswith("conn_dial"):
            # dialling needs the peer to be without a connection
            self.ev_gone(c)
            if name == "conn_dial_no_socket":
                # the attempt fails before there is a socket at all (out of descriptors; no SCTP support)
                WORLD.socket_fails = True
                try:
                    self.n._connect_to_peer(self.p)
                except Exception:
                    pass
                finally:
                    WORLD.socket_fails = False
                self.settle()
            elif name == "conn_dial_refused":
                self.ev_dial("refused")
            elif name == "conn_dial_async_fail":
                self.ev_dial("inprog_fail")
            elif name == "conn_dial_cea_rejected":
                self.ev_dial("ok")
                self.ev_cea(5010)
            else:
                self.ev_dial("ok")
                self.ev_cea(2001)
                self.ev_gone(self.p.connection)
            self.main_conn()
        else:
            raise KeyError(name)
        B.drain(c)
        self.app.requests.clear()
        self.app.answers.clear()


def growth(ops: List[int]) -> bool:
    """
    pre: len(ops) == P["n"] and all(0 <= o < len(OPS) for o in ops)
    pre: all(ops[i] == P["prefix"][i] for i in range(len(P["prefix"])))
    post: _
    """
    hx.begin()
    skip = set()
    if "c19_app_waiting_answer" in P["carve"]:
        skip.add("_app_waiting_answer")
    names = [OPS[hx.concretize_range(o, 0, len(OPS))] for o in ops]
    try:
        # every symbolic input has been concretised above (one recorded branch each): the rest of the path is concrete and
        # runs natively
        with hx.untraced():
            d = Driver()
            for k in OPS:                 # warm-up: everything has happened once
                d.op(k)
            d.main_conn()
            d.stranger_conn()
            m0 = measure(d, skip)
            for k in names:
                d.op(k)
            d.main_conn()
            d.stranger_conn()
            m1 = measure(d, skip)
    except Exception as e:
        return hx.fail((ops,), "raised %s: %s" % (type(e).__name__, str(e)[:100]))
    diff = sorted((k, m0.get(k, 0), m1.get(k, 0)) for k in set(m0) | set(m1) if m0.get(k, 0) != m1.get(k, 0))
    return hx.check((ops,), (names, diff), (names, []), "retained state / live threads / open sockets grew with use")


def repro_app_waiting_answer():
    """known finding: Node._app_waiting_answer keeps one entry per request ever sent by an application"""
    hx.begin()
    d = Driver()
    d.op("out_req_answered")
    a = len(d.n._app_waiting_answer)
    d.op("out_req_answered")
    d.op("out_req_answered")
    b = len(d.n._app_waiting_answer)
    return b > a, "_app_waiting_answer %d -> %d entries after 2 more answered outbound requests" % (a, b)


# ----------------------------------------------------------------------------- reader thread x connection thread: state re-created after the release
def race_retained(sched: List[int], tgt: List[int]) -> bool:
    """
    pre: len(sched) == P["slots"] and len(tgt) == P["slots"] and all(0 <= s < P["maxstep"] for s in sched)
    pre: all(sched[i] < sched[i + 1] for i in range(len(sched) - 1)) and all(0 <= x <= 1 for x in tgt)
    post: _
    """
    hx.begin()
    from harness import race as R
    inputs = (sched, tgt)
    # two requests and the end of the connection arrive together; the reader thread (real __dispatch_message /
    # _receive_message as cooperative generators) and the connection thread (real _handle_connections /
    # remove_peer_connection) are interleaved by solver-placed preemptions.  Whatever the order: once the applications have
    # answered (or been refused) nothing may be left that is keyed by the connection that has gone.
    sched_c = [hx.concretize_range(x, 0, P["maxstep"]) for x in sched]
    tgt_c = [hx.concretize_range(x, 0, 2) for x in tgt]
    why = ""
    try:
        with hx.untraced():
            b = B.Bench(n_peers=1, stats=True)
            n, p, app = b.node, b.peers[0], b.apps[0]
            c, s = b.make_ready(p)
            s.__class__ = R.StrictSock
            s.inq = [B.ccr(PEER, 61, 61).as_bytes() + B.ccr(PEER, 62, 62).as_bytes(), b""]
            WORLD.pipe.clear()
            io_death, reader_death = R.run_race(n, c, sched_c, tgt_c, lambda v, lo, hi: v)
            for req in list(app.requests):
                try:
                    app.send_answer(app.generate_answer(req, result_code=2001))
                except Exception:
                    pass
            left = [k for k in n._peer_waiting_answer if k == c.ident and n._peer_waiting_answer[k]] + \
                   [k for k in n._origin_waiting_answer if str(k).startswith(c.ident + ":")]
            if io_death or reader_death:
                why = "a thread died: %s %s" % (io_death, reader_death)
            elif c.ident in n.connections:
                why = "the connection that ended is still registered"
            elif left:
                why = "state keyed by the connection that has gone is retained: %r" % (left[:3],)
    except Exception as e:
        why = "harness: %s: %s" % (type(e).__name__, str(e)[:100])
    return hx.check(inputs, (why,), ("",), "per-transaction state of a connection that has ended is retained")


def specs(tier, seed, carve):
    import random
    q = tier == "quick"
    rnd = random.Random(seed)
    out = []
    for slots in ((1, 2) if q else (1, 2, 3)):
        out.append(dict(id="race_retained/p%d" % slots, fn="race_retained", params={"slots": slots, "maxstep": 60 if slots < 3 else 40}, timeout=900 if q else 6000,
                        bound="two requests and EOF in one go: reader thread x connection thread (cooperative transforms of the real functions), every placement of %d preemption(s) in the first %d steps" % (slots, 60 if slots < 3 else 40)))
    firsts = list(range(len(OPS)))          # every pair already in the quick tier (paths run natively)
    for f in firsts:
        out.append(dict(id="growth/2/" + OPS[f], fn="growth", params={"n": 2, "prefix": [f]}, timeout=900,
                        bound="after a warm-up with every kind once: %s followed by any of the %d operations" % (OPS[f], len(OPS))))
    if not q:
        for f in range(len(OPS)):
            for g in range(len(OPS)):
                out.append(dict(id="growth/3/%s/%s" % (OPS[f], OPS[g]), fn="growth", params={"n": 3, "prefix": [f, g]}, timeout=1500,
                                bound="warm-up, then %s, %s and any third operation" % (OPS[f], OPS[g])))
    return out


# ---------------------------------------------------------------------------------------------------------------------
# wire-level histories with this property's monitor (harness/uni.py): bytes in, bytes out, reference model of the far ends
from typing import List as _List  # noqa: E402
from harness import uni as U  # noqa: E402


def uni_history(ev: _List[int]) -> bool:
    """
    pre: len(ev) == P["depth"] and all(0 <= e < len(U.EVENTS) for e in ev)
    pre: all(ev[i] == P["prefix"][i] for i in range(len(P["prefix"])))
    post: _
    """
    return U.history_body(ev, P)


_own_specs = specs


def specs(tier, seed, carve):  # noqa: F811
    return _own_specs(tier, seed, carve) + U.specs(PROPERTY, tier, seed)


FUNCTIONS_ENCODED = list(FUNCTIONS_ENCODED) + U.FUNCTIONS
BOUNDS = {k: v + "; " + U.BOUNDS[k] for k, v in BOUNDS.items()}
OUTSIDE = list(OUTSIDE) + U.OUTSIDE
