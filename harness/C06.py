"""C06 - capabilities exchange gates all traffic and yields the specified outcome."""
from typing import List
from engine import hx
from engine.env import STUBS, WORLD  # noqa: F401
from harness import bench as B
from harness.bench import drain

PROPERTY = "C06"
P = {}
FUNCTIONS_ENCODED = ["PeerConnection.__dispatch_message", "Node._receive_message", "Node.receive_cer", "Node.receive_cea", "Node.send_cer",
                     "Node._connect_to_peer", "Node._add_peer_connection", "Node._assign_peer_connection", "Node._flag_connection_as_ready",
                     "Node._check_timers (CER/CEA timeout branch)", "Node.route_request", "Node.close_connection_socket"]
ASSUMPTIONS = ["'capabilities exchange has not succeeded' includes the states after a 3010/5010 answer", "a second CER on one connection is excluded (unspecified by the property)",
               "application-id sets are drawn from a 4-element universe {4, 3, 16777238, relay}; identities and ids from pools (data-independence)"]
BOUNDS = {"quick": "gate: every pre-CE state x 9 message kinds x both directions; CER outcomes: known/unknown peer x all subsets of a 3-app universe on node and CER side (auth/acct/vendor-specific/relay); outbound CEA: all 2^32 result codes; timeouts: all clock offsets 0..200 and node/peer timeouts 0..60; histories of depth 3 over 9 events",
          "thorough": "histories of depth 4"}
OUTSIDE = ["histories deeper than 4", "more than 2 applications", "more than 2 configured peers"]

KINDS = ["cer", "cea", "dwr", "dwa", "dpr", "dpa", "app_request", "app_answer", "unknown_cmd_request"]
PEER = B.PEER_HOSTS[0]


def _msg(kind, hbh=71, e2e=72):
    if kind == "cer":
        return B.cer(PEER, hbh=hbh, e2e=e2e)
    if kind == "cea":
        return B.cea(PEER, hbh=hbh, e2e=e2e)
    if kind == "dwr":
        return B.dwr(PEER, hbh, e2e)
    if kind == "dwa":
        return B.dwa(PEER, hbh, e2e)
    if kind == "dpr":
        return B.dpr(PEER, hbh, e2e)
    if kind == "dpa":
        return B.dpa(PEER, hbh, e2e)
    if kind == "app_request":
        return B.ccr(PEER, hbh, e2e)
    if kind == "app_answer":
        return B.cca(PEER, hbh, e2e)
    m = B.Message()
    m.header.command_code = 999
    m.header.is_request = True
    m.header.hop_by_hop_identifier = hbh
    m.header.end_to_end_identifier = e2e
    m.header.application_id = 4
    return m


def _snapshot(b, c):
    n = b.node
    app = b.apps[0]
    routable = True
    try:
        n.route_request(app, B.ccr(B.NODE_HOST, 0, 999))
    except B.NotRoutable:
        routable = False
    n._app_waiting_answer.clear()
    return (B.summarize(drain(c)), len(app.requests), len(app.answers), c.state, routable, app.is_ready.is_set(),
            sorted((k, sorted(v)) for k, v in n._peer_waiting_answer.items() if v))


# ----------------------------------------------------------------------------- 1. the gate, one step from every pre-CE state
def gate_step(outbound: bool, pre: int, kind: int) -> bool:
    """
    pre: 0 <= pre <= 2 and 0 <= kind < len(KINDS) and (pre <= 1 or not outbound)
    post: _
    """
    hx.begin()
    pre_s = hx.concretize_range(pre, 0, 3)
    k = KINDS[hx.concretize_range(kind, 0, len(KINDS))]
    inputs = (outbound, pre, kind)
    try:
        b = B.Bench(n_peers=1)
        p = b.peers[0]
        if outbound:
            c = b.dial(p, "ok")
            drain(c)                    # the CER we sent
            if pre_s == 1:
                b.inject(c, B.cea(PEER, result=5010))       # rejected: connection is closed
        else:
            c, s = b.accept()
            if pre_s == 1:
                b.inject(c, B.cer("stranger.local.realm"))  # 3010, closing
            elif pre_s == 2:
                b.inject(c, B.cer(PEER, apps=[9]))           # 5010, not ready
        drain(c)
        before = _snapshot(b, c)
        expected_ce = (k == "cea") if outbound else (k == "cer")
        if expected_ce and pre_s == 0:
            return hx.holds(inputs, True, ("ce",), "")
        if k == "cer" and not outbound:
            return hx.holds(inputs, True, ("second cer: unspecified",), "")
        b.inject(c, _msg(k))
        after = _snapshot(b, c)
    except Exception as e:
        return hx.fail(inputs, "raised " + type(e).__name__)
    return hx.check(inputs, after, ([],) + before[1:], "before a successful capabilities exchange anything but the expected CE message must be ignored")


# ----------------------------------------------------------------------------- 2. inbound CER outcomes
UNIV = [4, 3, 16777238]
RELAY = 0xffffffff


def cer_outcome(known: bool, na: int, nk: int, ca: int, cc: int, cv: int, relay: int, hi: int, ei: int) -> bool:
    """
    pre: known == P["known"] and na == P["na"] and nk == P["nk"]
    pre: 0 <= ca <= 7 and 0 <= cc <= 3 and cv in (0, 4) and 0 <= relay <= 2 and hi in (0, 2) and ei == 1
    post: _
    """
    hx.begin()
    na, nk = P["na"], P["nk"]
    ca, cc, cv = (hx.concretize_range(x, 0, 8) for x in (ca, cc, cv))
    relay = hx.concretize_range(relay, 0, 3)
    hbh, e2e = B.ID_POOL[hx.concretize_range(hi, 0, 5)], B.ID_POOL[hx.concretize_range(ei, 0, 5)]
    inputs = (known, na, nk, ca, cc, cv, relay, hi, ei)
    sub = lambda m: [UNIV[i] for i in range(3) if (m >> i) & 1]
    try:
        apps = [(a, "auth") for a in sub(na)] + [(a, "acct") for a in sub(nk)]
        b = B.Bench(n_peers=1, apps=apps)
        n, p = b.node, b.peers[0]
        c, s = b.accept()
        origin = PEER if known else "stranger.local.realm"
        m = B.cer(origin, apps=sub(ca) + ([RELAY] if relay == 1 else []), acct=sub(cc) + ([RELAY] if relay == 2 else []), hbh=hbh, e2e=e2e)
        if cv:
            from diameter.message.avp.grouped import VendorSpecificApplicationId
            vs = []
            for a in sub(cv):
                v = VendorSpecificApplicationId()
                v.vendor_id = 10415
                v.auth_application_id = a
                vs.append(v)
            m.vendor_specific_application_id = vs
        b.inject(c, m)
        out = drain(c)
        a = out[0] if out else None
        obs = (B.summarize(out), c.state, p.connection is c, b.apps[0].is_ready.is_set(),
               None if a is None else (a.origin_host, a.origin_realm, list(a.host_ip_address), a.vendor_id, a.product_name,
                                       sorted(a.auth_application_id), sorted(a.acct_application_id)))
    except Exception as e:
        return hx.fail(inputs, "raised " + type(e).__name__ + str(e)[:80])
    cer_auth = set(sub(ca)) | set(sub(cv)) | ({RELAY} if relay == 1 else set())
    cer_acct = set(sub(cc)) | ({RELAY} if relay == 2 else set())
    shared = (set(sub(na)) & cer_auth) or (set(sub(nk)) & cer_acct)
    ident = (B.NODE_HOST.encode(), B.REALM.encode(), ["10.0.0.1"], n.vendor_id, n.product_name, sorted(sub(na)), sorted(sub(nk)))
    if not known:
        exp = ([(False, 257, 0, hbh, e2e, 3010)], B.PEER_CLOSING, False, False, ident)
    elif shared or relay:
        exp = ([(False, 257, 0, hbh, e2e, 2001)], B.PEER_READY, True, True, ident)
    else:
        exp = ([(False, 257, 0, hbh, e2e, 5010)], B.PEER_CONNECTED, None, False, ident)
        obs = obs[:2] + (None,) + obs[3:]
    return hx.check(inputs, obs, exp, "CER outcome: 2001+ready / 3010+closing / 5010+not ready, CEA carries the node's identity and application ids")


def cea_reject_then_traffic(result: int, k1: int, k2: int, one_read: bool) -> bool:
    """
    pre: 0 <= result <= 0x7fffffff and result != 2001 and 0 <= k1 <= 3 and 0 <= k2 <= 3
    post: _
    """
    hx.begin()
    from harness import hist as H
    kinds = ["dwr", "app_request", "dpr", "app_answer"]
    a, b2 = kinds[hx.concretize_range(k1, 0, 4)], kinds[hx.concretize_range(k2, 0, 4)]
    inputs = (result, k1, k2, one_read)
    try:
        h = H.Hist(init="fresh", persistent=False)
        n, p, app = h.n, h.p, h.app
        h.ev_dial("ok")
        c = h.newest()
        s = n.peer_sockets.get(c.ident)
        s.out = b""
        # the rejecting CEA with more messages right behind it (same TCP segment, or the next one)
        data = [B.cea(PEER, result=result, hbh=5, e2e=5).as_bytes(), _msg(a, 31, 32).as_bytes(), _msg(b2, 33, 34).as_bytes()]
        if one_read:
            h._push(c, b"".join(data))
        else:
            s.inq.append(data[0])
            s.inq.append(data[1] + data[2])
            h.settle()
        sent = [(m.header.is_request, m.header.command_code) for m in WORLD.frames(s.out)]
        obs = (sent, len(app.requests), len(app.answers), c.state, c.ident in n.connections, app.is_ready.is_set(), p.connection is None)
    except Exception as e:
        return hx.fail(inputs, "raised %s: %s" % (type(e).__name__, str(e)[:80]))
    return hx.check(inputs, obs, ([], 0, 0, B.PEER_CLOSED, False, False, True),
                    "after a rejecting CEA nothing that follows on the connection is answered or shown to an application, and the connection is closed")


SPELL = [lambda s: s.lower(), lambda s: ".".join(w.capitalize() for w in s.split(".")), lambda s: s.upper()]


def cer_case(cfg: int, sp: int, outbound: bool) -> bool:
    """
    pre: 0 <= cfg <= 2 and 0 <= sp <= 2
    post: _
    """
    hx.begin()
    cfg, sp = hx.concretize_range(cfg, 0, 3), hx.concretize_range(sp, 0, 3)
    inputs = (cfg, sp, outbound)
    saved = B.PEER_HOSTS[0]
    try:
        # DiameterIdentity is a case-insensitive FQDN: the peer is configured in one spelling and names itself in another
        B.PEER_HOSTS[0] = SPELL[cfg](saved)
        b = B.Bench(n_peers=1)
        n, p = b.node, b.peers[0]
        name = SPELL[sp](saved)
        if outbound:
            c = b.dial(p, "ok")
            drain(c)
            b.inject(c, B.cea(name, hbh=11, e2e=12))
            out = []
        else:
            c, s = b.accept()
            b.inject(c, B.cer(name, hbh=11, e2e=12))
            out = [x[5] for x in B.summarize(drain(c))]
        obs = (out, c.state, p.connection is c, b.apps[0].is_ready.is_set())
    except Exception as e:
        return hx.fail(inputs, "raised " + type(e).__name__ + str(e)[:80])
    finally:
        B.PEER_HOSTS[0] = saved
    return hx.check(inputs, obs, ([] if outbound else [2001], B.PEER_READY, True, True), "a configured peer is known whatever the letter case of its name in the URI and in Origin-Host")


def peer_added_late(cfg: int, sp: int, first: int, outbound: bool) -> bool:
    """
    pre: 0 <= cfg <= 2 and 0 <= sp <= 2 and 0 <= first <= 3
    post: _
    """
    hx.begin()
    # a peer configured at run time (add_peer on a node that has already handled capabilities exchanges - of a stranger, of
    # another configured peer in its exact or in another spelling) is known from then on, whatever the letter case
    cfg, sp, first = hx.concretize_range(cfg, 0, 3), hx.concretize_range(sp, 0, 3), hx.concretize_range(first, 0, 4)
    outbound = bool(hx.concretize(outbound))
    inputs = (cfg, sp, first, outbound)
    try:
        with hx.untraced():
            b = B.Bench(n_peers=1)
            n, app = b.node, b.apps[0]
            if first:
                c0, s0 = b.accept()
                who = [None, "stranger.local.realm", B.PEER_HOSTS[0], B.PEER_HOSTS[0].upper()][first]
                b.inject(c0, B.cer(who, hbh=1, e2e=2))
                drain(c0)
            late = "gw2.local.realm"
            p2 = n.add_peer("aaa://" + SPELL[cfg](late), B.REALM, ip_addresses=["10.0.1.9"], is_persistent=False)
            n.add_application(B.RecApp(4, is_auth_application=True), [p2])
            name = SPELL[sp](late)
            if outbound:
                c = b.dial(p2, "ok")
                drain(c)
                b.inject(c, B.cea(name, hbh=11, e2e=12))
                out = []
            else:
                c, s = b.accept("10.0.1.9")
                b.inject(c, B.cer(name, hbh=11, e2e=12))
                out = [x[5] for x in B.summarize(drain(c))]
            obs = (out, c.state, p2.connection is c)
    except Exception as e:
        return hx.fail(inputs, "raised " + type(e).__name__ + str(e)[:80])
    return hx.check(inputs, obs, ([] if outbound else [2001], B.PEER_READY, True), "a peer added at run time is known to the capabilities exchange, whatever happened before and whatever the letter case")


# ----------------------------------------------------------------------------- 3. outbound: CER first, ready only on a 2001 CEA
def cea_outcome(result: int) -> bool:
    """
    pre: 0 <= result <= 0xffffffff
    post: _
    """
    hx.begin()
    try:
        b = B.Bench(n_peers=1)
        n, p = b.node, b.peers[0]
        c = b.dial(p, "ok")
        first = drain(c)
        sock = b.sock(c)
        st0 = c.state
        b.inject(c, B.cea(PEER, result=result))
        WORLD.settle(n)                  # the connection thread reacts to the reader's wake-up (it owns the sockets)
        later = drain(c)
        obs = ([x[:2] for x in B.summarize(first)], st0, c.state, c.ident in n.connections, p.disconnect_reason, len(later), b.apps[0].is_ready.is_set(),
               sock.closed)
    except Exception as e:
        return hx.fail((result,), "raised " + type(e).__name__)
    if result == 2001:
        exp = ([(True, 257)], B.PEER_CONNECTED, B.PEER_READY, True, None, 0, True, False)
    else:
        exp = ([(True, 257)], B.PEER_CONNECTED, B.PEER_CLOSED, False, B.DISCONNECT_REASON_CER_REJECTED, 0, False, True)
    return hx.check((result,), obs, exp, "outbound: CER is sent first; ready iff the CEA says 2001, otherwise closed with the CER-rejected reason")


# ----------------------------------------------------------------------------- 4. CER/CEA timeouts
def ce_timeout(outbound: bool, elapsed: int, node_to: int, peer_to: int) -> bool:
    """
    pre: 0 <= elapsed <= 200 and 1 <= node_to <= 60 and 0 <= peer_to <= 60
    post: _
    """
    hx.begin()
    inputs = (outbound, elapsed, node_to, peer_to)
    try:
        b = B.Bench(n_peers=1)
        n, p = b.node, b.peers[0]
        if outbound:
            n.cea_timeout = node_to
            p.cea_timeout = peer_to if peer_to else None
            c = b.dial(p, "ok")
        else:
            n.cer_timeout = node_to
            # an inbound connection is anonymous until its CER: only the node default can apply
            c, s = b.accept()
        drain(c)
        WORLD.now += elapsed
        n._check_timers(c)
        obs = (c.state, c.ident in n.connections, len(drain(c)), p.disconnect_reason if outbound else None)
    except Exception as e:
        return hx.fail(inputs, "raised " + type(e).__name__)
    eff = (peer_to if (peer_to and outbound) else node_to)
    if elapsed > eff:
        exp = (B.PEER_CLOSED, False, 0, B.DISCONNECT_REASON_FAILED_CONNECT_CE if outbound else None)
    else:
        exp = (B.PEER_CONNECTED, True, 0, None)
    return hx.check(inputs, obs, exp, "closed iff the expected CER/CEA did not arrive within the effective timeout (per-peer value first)")


def ce_timeout_traffic(outbound: bool, slow: int, t_junk: int, elapsed: int, junk: int, node_to: int) -> bool:
    """
    pre: 0 <= slow <= 60 and 0 <= t_junk <= elapsed <= 120 and 0 <= junk <= 2 and 1 <= node_to <= 60
    post: _
    """
    hx.begin()
    from harness import hist as H
    junk = hx.concretize_range(junk, 0, 3)
    inputs = (outbound, slow, t_junk, elapsed, junk, node_to)
    try:
        h = H.Hist(init="fresh", persistent=False)
        n, p = h.n, h.p
        n.cea_timeout = node_to
        n.cer_timeout = node_to
        if outbound:
            # the TCP handshake itself takes `slow` seconds; the wait for the CEA starts when the CER can go out
            WORLD.connect_plan.append("pending")
            n._connect_to_peer(p)
            c = h.newest()
            s = n.peer_sockets.get(c.ident)
            s.connect_plan = "pending"
            h.settle()
            WORLD.now += slow
            s.connect_plan = "inprogress"
            h.settle()
        else:
            h.ev_accept()
            c = h.newest()
            s = n.peer_sockets.get(c.ident)
        st0 = c.state
        s.out = b""
        WORLD.now += t_junk
        if c.ident in n.connections:
            n._check_timers(c)
        if junk and c.ident in n.connections:
            # traffic the capabilities-exchange gate ignores: a whole watchdog request / the first bytes of some message
            data = B.dwr(PEER, 31, 32).as_bytes()
            h._push(c, data if junk == 1 else data[:10])
        WORLD.now += elapsed - t_junk
        if c.ident in n.connections:
            n._check_timers(c)
        h.settle()
        sent = [m.header.command_code for m in WORLD.frames(s.out)]
        obs = (st0, c.state, c.ident in n.connections, sent)
    except Exception as e:
        return hx.fail(inputs, "raised %s" % type(e).__name__)
    if elapsed > node_to:
        exp = (B.PEER_CONNECTED, B.PEER_CLOSED, False, [])
    else:
        exp = (B.PEER_CONNECTED, B.PEER_CONNECTED, True, [])
    return hx.check(inputs, obs, exp, "pre-CE connection: closed iff the expected CER/CEA did not arrive within the timeout counted from the moment the connection was established - whatever else arrived meanwhile")


# ----------------------------------------------------------------------------- 5. histories on one inbound connection
EVENTS = ["cer_known", "cer_unknown", "cer_nocommon", "dwr", "dpr", "app_request", "app_answer", "dwa", "tick"]


def history(ev: List[int]) -> bool:
    """
    pre: len(ev) == P["depth"] and all(0 <= e < len(EVENTS) for e in ev)
    post: _
    """
    hx.begin()
    try:
        b = B.Bench(n_peers=1)
        n, p, app = b.node, b.peers[0], b.apps[0]
        c, s = b.accept()
        succeeded = False
        cer_seen = False
        trace = []
        for i, e in enumerate(ev):
            name = EVENTS[hx.concretize_range(e, 0, len(EVENTS))]
            trace.append(name)
            if name.startswith("cer"):
                if cer_seen:
                    return hx.holds((ev,), True, ("second cer: unspecified",), "")
                cer_seen = True
            if c.state == B.PEER_CLOSED and c.ident not in n.connections:
                break
            before = (len(app.requests), len(app.answers))
            if name == "cer_known":
                b.inject(c, B.cer(PEER, hbh=100 + i, e2e=200 + i))
            elif name == "cer_unknown":
                b.inject(c, B.cer("stranger.local.realm", hbh=100 + i, e2e=200 + i))
            elif name == "cer_nocommon":
                b.inject(c, B.cer(PEER, apps=[9], hbh=100 + i, e2e=200 + i))
            elif name == "tick":
                WORLD.now += 1
                n._check_timers(c)
            else:
                b.inject(c, _msg(name, 100 + i, 200 + i))
            out = B.summarize(drain(c))
            if not succeeded:
                ce_only = all((not r) and code == 257 for (r, code, *_x) in out)
                untouched = (len(app.requests), len(app.answers)) == before
                if not (ce_only and untouched and (name.startswith("cer") or not out)):
                    return hx.check((ev,), (trace, out, (len(app.requests), len(app.answers))), (trace, [], before),
                                    "traffic processed before the capabilities exchange succeeded")
            if name == "cer_known" and out and out[0][5] == 2001:
                succeeded = True
    except Exception as e:
        return hx.fail((ev,), "raised " + type(e).__name__)
    return hx.holds((ev,), True, (trace,), "")


def specs(tier, seed, carve):
    q = tier == "quick"
    out = [dict(id="gate_step", fn="gate_step", params={}, timeout=300, bound="inbound/outbound x pre-CE state {fresh, after 3010 / rejected CEA, after 5010} x 9 message kinds"),
           dict(id="cea_outcome", fn="cea_outcome", params={}, timeout=120, bound="all 2^32 CEA result codes"),
           dict(id="ce_timeout", fn="ce_timeout", params={}, timeout=200, bound="both directions, elapsed 0..200 s, node timeout 1..60, per-peer timeout 0..60 (0 = unset)"),
           dict(id="cea_reject_then_traffic", fn="cea_reject_then_traffic", params={}, timeout=400, bound="outbound connection, CEA with any result != 2001 followed at once by two messages of {DWR, application request, DPR, application answer}, in the same read or the next"),
           dict(id="peer_added_late", fn="peer_added_late", params={}, timeout=300, bound="a peer added with add_peer after the node has handled 0..1 earlier capabilities exchanges (stranger / configured peer in its exact or another spelling); its URI and its Origin-Host (CER inbound, CEA outbound) in lower / Capitalised / UPPER case"),
           dict(id="cer_case", fn="cer_case", params={}, timeout=300, bound="peer configured in lower / Capitalised / UPPER case x Origin-Host of its CER (inbound) or CEA (outbound) in each of the three spellings"),
           dict(id="ce_timeout_traffic", fn="ce_timeout_traffic", params={}, timeout=600, bound="both directions through the real I/O loop; TCP handshake lasting 0..60 s; ignored traffic (a whole DWR / 10 bytes of one / none) arriving at any second before the check; elapsed 0..120 s; timeout 1..60")]
    import random
    rnd = random.Random(seed)
    cfgs = [(na, nk) for na in range(8) for nk in range(8) if na & nk == 0 and (na | nk) and bin(na | nk).count("1") <= 2]
    if q:
        cfgs = rnd.sample(cfgs, 4)
    for (na, nk) in cfgs:
        for known in ((1,) if q else (0, 1)):
            out.append(dict(id="cer_outcome/known%d/auth%d_acct%d" % (known, na, nk), fn="cer_outcome", params={"known": bool(known), "na": na, "nk": nk}, timeout=600 if q else 1500,
                            bound="peer %s; node apps auth mask %d / acct mask %d over ids %s; CER: every auth subset, acct subsets of 2, vendor-specific {none, one}, relay in {none, auth, acct}; 2 hop-by-hop ids" % (
                                "known" if known else "unknown", na, nk, UNIV)))
    out.append(dict(id="cer_outcome/unknown", fn="cer_outcome", params={"known": False, "na": 1, "nk": 2}, timeout=600,
                    bound="unknown peer; node apps auth 4 / acct 3; all CER subsets as above"))
    for d in ((2, 3) if q else (2, 3, 4)):
        out.append(dict(id="history/%d" % d, fn="history", params={"depth": d}, timeout=600 if q else 3000,
                        bound="every sequence of %d events over %s on a fresh inbound connection" % (d, EVENTS)))
    return out


# ---------------------------------------------------------------------------------------------------------------------
# wire-level histories with this property's monitor (harness/uni.py): bytes in, bytes out, reference model of the far ends
from typing import List as _List  # noqa: E402
from harness import uni as U  # noqa: E402


def uni_history(ev: _List[int]) -> bool:
    """
    pre: len(ev) == P["depth"] and all(0 <= e < len(U.EVENTS) for e in ev)
    pre: all(ev[i] == P["prefix"][i] for i in range(len(P["prefix"])))
    post: _
    """
    return U.history_body(ev, P)


_own_specs = specs


def specs(tier, seed, carve):  # noqa: F811
    return _own_specs(tier, seed, carve) + U.specs(PROPERTY, tier, seed)


FUNCTIONS_ENCODED = list(FUNCTIONS_ENCODED) + U.FUNCTIONS
BOUNDS = {k: v + "; " + U.BOUNDS[k] for k, v in BOUNDS.items()}
OUTSIDE = list(OUTSIDE) + U.OUTSIDE
