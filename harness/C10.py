"""C10 - requests go only to eligible ready peers; answers return to their sender."""
import threading
from typing import List
from engine import hx, coop
from engine.env import STUBS, WORLD  # noqa: F401
from harness import bench as B
from harness.bench import drain
import diameter.node.application as appmod
from diameter.node.application import Application

PROPERTY = "C10"
P = {}
FUNCTIONS_ENCODED = ["Node.route_request", "select_least_used_peer / Node.peer_route_select_func", "Node.add_application / add_peer (route tables)", "Node.send_message",
                     "Node._receive_app_answer", "Application.send_request (cooperative transform of the current source)", "Application.receive_answer / handle_answer",
                     "SequenceGenerator.next_sequence"]
ASSUMPTIONS = ["'eligible' = configured for (application, realm) or default peer of the realm, with a connection in a ready state; where the application has configured peers the defaults are not required to be used",
               "Application.send_request runs as a cooperative generator; Event.wait(timeout) is a yielding wait whose timeout is a harness decision",
               "connection states are constructed directly (over-approximation)"]
BOUNDS = {"quick": "routing: 2 peers x 2 same-id applications with every peer subset each, every default-peer subset, 4 connection states per peer, 3 realms, custom selection callback with symbolic pick; correlation: 2 concurrent senders, answers in both orders / duplicated / late, <= 2 preemptions",
          "thorough": "3 peers; <= 3 preemptions"}
OUTSIDE = ["3..4 concurrent senders", "4 peers", "the OS scheduler"]
CSTATES = [None, B.PEER_READY, B.PEER_READY_WAITING_DWA, B.PEER_DISCONNECTING]
REALMS = [B.REALM, "extra.realm", "foreign.realm"]


def _mk(maskA, maskB, maskD, states, npeers):
    b = B.Bench(n_peers=npeers, apps=(), default_peers=[i for i in range(npeers) if (maskD >> i) & 1])
    n = b.node
    A = B.RecApp(4, is_auth_application=True)
    Bp = B.RecApp(4, is_auth_application=True)
    n.add_application(A, [b.peers[i] for i in range(npeers) if (maskA >> i) & 1], ["extra.realm"])
    n.add_application(Bp, [b.peers[i] for i in range(npeers) if (maskB >> i) & 1], ["extra.realm"])
    b.apps = [A, Bp]
    conns = []
    for i in range(npeers):
        st = CSTATES[states[i]]
        if st is None:
            conns.append(None)
            continue
        c, s = b.accept("10.0.1.%d" % (i + 1))
        b.inject(c, B.cer(B.PEER_HOSTS[i], hbh=10 + i, e2e=10 + i))
        drain(c)
        c.state = st
        conns.append(c)
    return b, conns


def routing(s0: int, s1: int, s2: int, maskD: int, ri: int, which: bool, pick: int, seq0: int) -> bool:
    """
    pre: 0 <= s0 < len(CSTATES) and 0 <= s1 < len(CSTATES) and 0 <= s2 < len(CSTATES) and maskD == P["maskD"]
    pre: 0 <= ri <= 2 and 0 <= pick <= 1 and seq0 == P["seq0"] and (P["npeers"] == 3 or s2 == 0)
    post: _
    """
    hx.begin()
    npeers = P["npeers"]
    maskA, maskB = P["maskA"], P["maskB"]
    states = [hx.concretize_range(x, 0, len(CSTATES)) for x in (s0, s1, s2)][:npeers]
    md = P["maskD"]
    realm = REALMS[hx.concretize_range(ri, 0, 3)]
    pk = hx.concretize_range(pick, 0, 2)
    sq = [5, 0xfffffffe, 0xffffffff][P["seq0"]]
    inputs = (s0, s1, s2, maskD, ri, which, pick, seq0)
    try:
        b, conns = _mk(maskA, maskB, md, states, npeers)
        n = b.node
        app = b.apps[1 if which else 0]
        mymask = maskB if which else maskA
        for i_, c in enumerate(conns):
            if c is not None:
                c.hop_by_hop_seq._sequence = sq
                if which:
                    # a (late) watchdog answer arrives first: it may end the wait for a DWA, nothing else
                    b.inject(c, B.dwa(B.PEER_HOSTS[i_], 5, 6))
                    drain(c)
        seen = []

        def cb(node, a, message, peers):
            seen.append([p.node_name for p in peers])
            return peers[pk % len(peers)]
        n.peer_route_select_func = cb
        res = []
        for k in range(2):
            req = B.ccr(B.NODE_HOST, 0, 800 + k, realm=realm)
            try:
                conn, _m = n.route_request(app, req)
                n.send_message(conn, req)
                res.append((conns.index(conn), req.header.hop_by_hop_identifier))
            except B.NotRoutable:
                res.append(("NotRoutable", 0))
        queued = [[m.header.hop_by_hop_identifier for m in drain(c)] if c is not None else [] for c in conns]
    except Exception as e:
        return hx.fail(inputs, "raised %s: %s" % (type(e).__name__, str(e)[:80]))
    # ---- reference
    ready = [conns[i] is not None and CSTATES[states[i]] in B.PEER_READY_STATES for i in range(npeers)]
    served = realm in (B.REALM, "extra.realm")
    configured = [i for i in range(npeers) if (mymask >> i) & 1] if served else []
    defaults = [i for i in range(npeers) if (md >> i) & 1] if realm == B.REALM else []
    elig_cfg = [i for i in configured if ready[i]]
    elig_def = [i for i in defaults if ready[i]]
    why = ""
    for k, (r, hbh) in enumerate(res):
        if r == "NotRoutable":
            if elig_cfg or (not configured and elig_def):
                why = "NotRoutable although an eligible ready peer exists"
        else:
            if not ready[r] or (r not in configured and r not in defaults):
                why = "request sent to peer %d which is not an eligible ready peer (configured %r, default %r, ready %r)" % (r, configured, defaults, ready)
            if hbh == 0 or hbh > 0xffffffff:
                why = "hop-by-hop identifier %r" % hbh
    sent = [r for r in res if r[0] != "NotRoutable"]
    if len(sent) == 2 and sent[0][0] == sent[1][0] and sent[0][1] == sent[1][1]:
        why = "two outstanding requests on one connection share a hop-by-hop identifier"
    exp_queue = [[h for (r, h) in res if r == i] for i in range(npeers)]
    if queued != exp_queue:
        why = why or "queued %r != routed %r" % (queued, exp_queue)
    base = configured if configured else defaults
    elig = [i for i in base if ready[i]]
    for lst in seen:
        if len(lst) < 2 or sorted(lst) != sorted(B.PEER_HOSTS[i] for i in elig):
            why = why or "selection callback saw %r, eligible set is %r" % (lst, [B.PEER_HOSTS[i] for i in elig])
    if len(elig) > 1 and len(seen) != len(sent):
        why = why or "selection callback not consulted although %d peers qualify" % len(elig)
    return hx.check(inputs, (why,), ("",), "request routing")


# ----------------------------------------------------------------------------- (b) answer correlation
class CoopEvent:
    def __init__(self):
        self.flag = False
        self.timed_out = False

    def set(self):
        self.flag = True

    def is_set(self):
        return self.flag

    def coop_wait(self, timeout=None):
        if self.flag:
            return True, True
        if self.timed_out:
            return True, False
        return False, None


def routing_realms(s0: int, s1: int, ri: int, order: bool) -> bool:
    """
    pre: 0 <= s0 < len(CSTATES) and 0 <= s1 < len(CSTATES) and 0 <= ri <= 2
    post: _
    """
    hx.begin()
    states = [hx.concretize_range(s0, 0, len(CSTATES)), hx.concretize_range(s1, 0, len(CSTATES))]
    realms = ["a.realm", "b.realm"]
    realm = (realms + [B.REALM])[hx.concretize_range(ri, 0, 3)]
    inputs = (s0, s1, ri, order)
    try:
        # one application whose two peers live in different realms (each peer is configured for its own realm only)
        b = B.Bench(n_peers=0, apps=())
        n = b.node
        names = ["pa.a.realm", "pb.b.realm"]
        peers = [n.add_peer("aaa://" + names[i], realms[i], ip_addresses=["10.0.2.%d" % (i + 1)]) for i in (0, 1)]
        app = B.RecApp(4, is_auth_application=True)
        n.add_application(app, list(reversed(peers)) if order else peers)
        conns = []
        for i in (0, 1):
            st = CSTATES[states[i]]
            if st is None:
                conns.append(None)
                continue
            c, s = b.accept("10.0.2.%d" % (i + 1))
            b.inject(c, B.cer(names[i], hbh=10 + i, e2e=10 + i, realm=realms[i]))
            drain(c)
            c.state = st
            conns.append(c)
        req = B.ccr(B.NODE_HOST, 0, 801, realm=realm)
        try:
            conn, _m = n.route_request(app, req)
            res = conns.index(conn)
        except B.NotRoutable:
            res = "NotRoutable"
    except Exception as e:
        return hx.fail(inputs, "raised %s: %s" % (type(e).__name__, str(e)[:80]))
    ready = [conns[i] is not None and CSTATES[states[i]] in B.PEER_READY_STATES for i in (0, 1)]
    elig = [i for i in (0, 1) if realms[i] == realm and ready[i]]
    exp = elig[0] if elig else "NotRoutable"
    return hx.check(inputs, (res,), (exp,), "a request for realm %s goes to a ready peer configured for that realm, or is refused" % realm)


REG = {}
SHARED = ("_answer_waiting", "send_message", "route_request", "wait", "answer", "waiting", "end_to_end_seq", "hop_by_hop_identifier")
SEND_REQUEST, SEND_REQUEST_SRC = coop.coop(Application.send_request, waiters=("wait",), registry=REG, shared=SHARED)


def correlation(order: bool, dup: bool, late: bool, stray: bool, sched: List[int]) -> bool:
    """
    pre: len(sched) == P["slots"] and all(0 <= s < P["maxstep"] for s in sched) and all(sched[i] < sched[i + 1] for i in range(len(sched) - 1))
    pre: order == P["order"] and dup == P["dup"]
    post: _
    """
    hx.begin()
    inputs = (order, dup, late, stray, sched)
    saved = appmod.threading
    appmod.threading = type("T", (), {"Event": CoopEvent, "Thread": saved.Thread, "Lock": threading.Lock})
    try:
        two = bool(P.get("two_conns"))
        if two:
            # ONE application with two peers: both requests leave from the same application on different connections
            # whose hop-by-hop generators happen to be at the same position
            b = B.Bench(n_peers=2, apps=((4, "auth"),))
            n, p = b.node, b.peers[0]
            A = Bp = b.apps[0]
            c, s = b.make_ready(b.peers[0], "10.0.1.1")
            c_b, s_b = b.make_ready(b.peers[1], "10.0.1.2")
            c.hop_by_hop_seq._sequence = 500
            c_b.hop_by_hop_seq._sequence = 500
            n.peer_route_select_func = lambda node, a, message, peers: peers[0 if message.session_id == "req;0" else 1]
        else:
            b = B.Bench(n_peers=1, apps=((4, "auth"), (4, "auth")))
            n, p = b.node, b.peers[0]
            A, Bp = b.apps
            c, s = b.make_ready(p)
            c_b = c
        results = {}

        def caller(i, app):
            try:
                ans = yield from SEND_REQUEST(app, B.ccr(B.NODE_HOST, 0, 0, session="req;%d" % i), 5)
                results[i] = ("answer", ans.session_id)
            except TimeoutError:
                results[i] = ("timeout", None)

        def peer():
            sent = []
            while len(sent) < 2:
                sent += [(m, c) for m in drain(c)]
                if c_b is not c:
                    sent += [(m, c_b) for m in drain(c_b)]
                yield coop.BLOCKED if len(sent) < 2 else 0
            sent.sort(key=lambda x: x[0].session_id)
            via = {id(m): cc for (m, cc) in sent}
            sent = [m for (m, cc) in sent]
            idx = [0, 1] if not order else [1, 0]
            first = True
            for k in idx:
                req = sent[k]
                if late and first:
                    # the caller of this request gives up before the answer arrives
                    for a in (A, Bp):
                        hb_, ee_ = req.header.hop_by_hop_identifier, req.header.end_to_end_identifier
                        for k_, w in list(a._answer_waiting.items()):          # whatever the table is keyed by
                            if k_ == hb_ or k_ == (hb_, ee_):
                                w.event.timed_out = True
                    yield 0
                    yield 0
                    yield 0
                    yield 0
                    yield 0
                ans = B.cca(B.PEER_HOSTS[0], req.header.hop_by_hop_identifier, req.header.end_to_end_identifier, session=req.session_id)
                n._receive_message(via[id(req)], ans)
                yield 0
                if dup and first:
                    n._receive_message(via[id(req)], B.cca(B.PEER_HOSTS[0], req.header.hop_by_hop_identifier, req.header.end_to_end_identifier, session=req.session_id))
                    yield 0
                first = False
            if stray:
                n._receive_message(c, B.cca(B.PEER_HOSTS[0], 0x7777, 0x7777, session="nobody"))
        used = [False] * len(sched)

        def choose(step, nrunnable):
            for i in range(len(sched)):
                if not used[i] and sched[i] == step:
                    used[i] = True
                    return 1
            return 0
        coop.run_choices([caller(0, A), caller(1, Bp), peer()], choose, len(sched), max_steps=600)
        why = ""
        for i, app in ((0, A), (1, Bp)):
            if two and i == 1:
                kind, val = results.get(i, (None, None))
                if kind is None:
                    why = why or "caller 1 never returned"
                elif kind == "answer" and val != "req;1":
                    why = why or "caller 1 received the answer %r of somebody else" % (val,)
                continue
            kind, val = results.get(i, (None, None))
            if kind is None:
                why = "caller %d never returned" % i
            elif kind == "answer" and val != "req;%d" % i:
                why = "caller %d received the answer %r of somebody else" % (i, val)
            # unexpected answers: only those of this application's own requests
            for m in app.answers:
                if (not two) and m.session_id != "req;%d" % i:
                    why = why or "application %d's unexpected-answer handler got %r" % (i, m.session_id)
            if app._answer_waiting:
                why = why or "waiting table of application %d not emptied" % i
        obs = (why,)
    except Exception as e:
        obs = ("raised %s: %s" % (type(e).__name__, str(e)[:80]),)
    finally:
        appmod.threading = saved
    return hx.check(inputs, obs, ("",), "each sender gets exactly the answer bearing its identifiers or times out; unexpected answers go to the sending application only")


def specs(tier, seed, carve):
    import random
    q = tier == "quick"
    rnd = random.Random(seed)
    out = []
    npeers = 2
    masks = [(a, bm) for a in range(1 << npeers) for bm in range(1 << npeers)]
    if q:
        masks = [(1, 2), (3, 0), (0, 0)] + rnd.sample([m for m in masks if m not in ((1, 2), (3, 0), (0, 0))], 2)
    for (a, bm) in masks:
        for md in range(1 << npeers):
            if q and md in (1, 2) and (a, bm) not in ((1, 2), (0, 0)):
                continue
            out.append(dict(id="routing/A%d_B%d_D%d" % (a, bm, md), fn="routing", params={"npeers": npeers, "maskA": a, "maskB": bm, "maskD": md, "seq0": (a + bm + md) % 3},
                            timeout=900,
                            bound="%d peers; application A on peer set %s, same-id application B on %s, default peers %s; every combination of connection states {none, READY, awaiting DWA, DISCONNECTING}; realm {own, additional, foreign}; sender A or B; callback pick; hop-by-hop start %s" % (
                                npeers, bin(a), bin(bm), bin(md), ["5", "MAX-1", "MAX"][(a + bm + md) % 3])))
    if not q:
        for (a, bm) in rnd.sample([(a, bm) for a in range(8) for bm in range(8)], 10):
            for md in (0, 5):
                out.append(dict(id="routing3/A%d_B%d_D%d" % (a, bm, md), fn="routing", params={"npeers": 3, "maskA": a, "maskB": bm, "maskD": md, "seq0": 2}, timeout=3000,
                                bound="3 peers; A on %s, B on %s, default %s; all 4^3 state combinations; 3 realms; both senders" % (bin(a), bin(bm), bin(md))))
    out.append(dict(id="routing_realms", fn="routing_realms", params={}, timeout=300,
                    bound="one application with two peers in two different realms (registered in either order), every combination of connection states, destination realm in {realm a, realm b, the node's own}"))
    slots = 1 if q else 2
    for order in (False, True):
        out.append(dict(id="correlation2/o%d/p%d" % (order, slots), fn="correlation", params={"slots": slots, "maxstep": 40, "order": order, "dup": False, "two_conns": True}, timeout=1200 if q else 6000,
                        bound="ONE application sending 2 concurrent requests over two connections whose hop-by-hop generators are at the same position (equal hop-by-hop ids), answer order %s, late/stray symbolic, <= %d preemptions" % ("reversed" if order else "as sent", slots)))
    for order in (False, True):
        for dup in (False, True):
            out.append(dict(id="correlation/o%d_d%d/p%d" % (order, dup, slots), fn="correlation", params={"slots": slots, "maxstep": 40, "order": order, "dup": dup}, timeout=1200 if q else 6000,
                            bound="2 concurrent senders (2 same-id applications), answer order %s, duplicate %s, late (after the sender's timeout) and stray answers symbolic; every placement of <= %d preemptions over the shared-state statements" % (
                                "reversed" if order else "as sent", "yes" if dup else "no", slots)))
    return out


# ---------------------------------------------------------------------------------------------------------------------
# wire-level histories with this property's monitor (harness/uni.py): bytes in, bytes out, reference model of the far ends
from typing import List as _List  # noqa: E402
from harness import uni as U  # noqa: E402


def uni_history(ev: _List[int]) -> bool:
    """
    pre: len(ev) == P["depth"] and all(0 <= e < len(U.EVENTS) for e in ev)
    pre: all(ev[i] == P["prefix"][i] for i in range(len(P["prefix"])))
    post: _
    """
    return U.history_body(ev, P)


_own_specs = specs


def specs(tier, seed, carve):  # noqa: F811
    return _own_specs(tier, seed, carve) + U.specs(PROPERTY, tier, seed)


FUNCTIONS_ENCODED = list(FUNCTIONS_ENCODED) + U.FUNCTIONS
BOUNDS = {k: v + "; " + U.BOUNDS[k] for k, v in BOUNDS.items()}
OUTSIDE = list(OUTSIDE) + U.OUTSIDE
