"""C01 - AVP value <-> wire codec is exact, RFC 6733-conformant and lossless.

Every obligation compares the repository's encoder/decoder with an independent
reference written from RFC 6733 4.1-4.3 (below); nothing is shared with the repo.
"""
from engine import hx
from diameter.message.avp import avp as A
from diameter.message.avp import (Avp, AvpAddress, AvpFloat32, AvpFloat64, AvpGrouped, AvpInteger32,
                                  AvpInteger64, AvpOctetString, AvpTime, AvpUnsigned32, AvpUnsigned64,
                                  AvpUtf8String, AvpEnumerated)
from diameter.message.avp.errors import AvpDecodeError, AvpEncodeError
from diameter.message.packer import Unpacker

PROPERTY = "C01"
P = {}
FUNCTIONS_ENCODED = [
    "Avp.__init__", "Avp.vendor_id (setter)", "Avp.is_mandatory/is_private (setters)", "Avp.length", "Avp.as_packed",
    "Avp.as_bytes", "Avp.from_unpacker", "Avp.from_bytes", "Avp.new", "AvpInteger32/64.value", "AvpUnsigned32/64.value",
    "AvpOctetString.value", "AvpUtf8String.value", "AvpTime.value", "AvpAddress.value", "AvpFloat32/64.value",
    "AvpGrouped.value", "Packer.pack_uint", "Packer.pack_fstring", "Unpacker.unpack_uint", "Unpacker.unpack_fstring",
    "get_avp_dictionary_entry", "avp.register"]
STUBS = ["io.BytesIO in message/packer.py -> pure-Python buffer (symbolic runs only)",
         "struct.pack/unpack -> CrossHair's model (ints symbolic, floats realised)",
         "datetime.datetime in avp.py -> subclass carrying POSIX seconds symbolically (Time obligations, symbolic runs only; TZ=UTC)",
         "get_avp_dictionary_entry -> type-class abstraction over the live dictionary for symbolic (code, vendor) (dispatch obligations)"]
ASSUMPTIONS = ["CrossHair's struct/int.to_bytes/str.encode models are faithful (counter-checked by differential replay of sampled paths on pristine code)",
               "process TZ=UTC as the property states",
               "payload content beyond the byte bound is only moved by slicing/concatenation (size arithmetic up to 2^24 is proved separately by the kernel lemmas)"]
BOUNDS = {
    "quick": "header: code, vendor in [0,2^32), flag octet in [0,256), payload <= 5 B; ints: whole domain and +-2^70 outside; octets <= 5 B; UTF-8 <= 2 code points (all of Unicode incl. surrogates); Time: all seconds in +-2^40; Address payload <= 20 B; grouped: 2 children, nesting 2; size lemmas n < 2^24-12",
    "thorough": "as quick with payload <= 9 B, UTF-8 <= 3 code points, grouped 3 children nesting 3"}
OUTSIDE = ["payload content beyond 9 bytes (sizes via lemmas only)", "AVP length >= 2^24", "float values beyond IEEE class representatives",
           "IP address content (realised at inet_pton/inet_ntop)", "grouped nesting 4..6"]


# ----------------------------------------------------------------------------- reference (RFC 6733 4.1)
def be(v, n):
    return v.to_bytes(n, "big")


def be_at(b, i, n):
    v = 0
    for k in range(n):
        v = v * 256 + b[i + k]
    return v


def pad4(n):
    return (4 - n % 4) % 4


def ref_avp(code, vendor, flags_mp, payload):
    """flags_mp: requested octet; V is forced from the vendor"""
    f = (flags_mp % 128 + 128) if vendor else (flags_mp % 128)
    hl = 12 if vendor else 8
    out = be(code, 4) + bytes([f]) + be(hl + len(payload), 3)
    if vendor:
        out += be(vendor, 4)
    return out + payload + b"\x00" * pad4(len(payload))


# ----------------------------------------------------------------------------- 1. header, encode
def hdr_enc(code: int, vendor: int, flags: int, payload: bytes) -> bool:
    """
    pre: 0 <= code <= 0xffffffff and 0 <= vendor <= 0xffffffff and 0 <= flags <= 0xff and len(payload) <= P["maxpay"]
    post: _
    """
    hx.begin()
    try:
        a = Avp(code, vendor, payload, flags)
        wire = a.as_bytes()
        obs = (wire, a.length, a.is_vendor, a.is_mandatory, a.is_private)
    except Exception as e:
        return hx.fail((code, vendor, flags, payload), "raised " + type(e).__name__)
    hl = 12 if vendor else 8
    exp = (ref_avp(code, vendor, flags, payload), hl + len(payload), vendor != 0, (flags // 64) % 2 == 1, (flags // 32) % 2 == 1)
    return hx.check((code, vendor, flags, payload), obs, exp, "wire form != RFC 6733 4.1 reference")


def hdr_mp(code: int, vendor: int, m: bool, p: bool, m2: bool, payload: bytes) -> bool:
    """
    pre: 0 <= code <= 0xffffffff and 0 <= vendor <= 0xffffffff and len(payload) <= 3
    post: _
    """
    hx.begin()
    try:
        a = Avp(code, payload=payload)
        a.is_mandatory = m
        a.vendor_id = vendor
        a.is_private = p
        a.is_mandatory = m2          # setting again must only touch the M bit
        obs = (a.as_bytes(),)
    except Exception as e:
        return hx.fail((code, vendor, m, p, m2, payload), "raised " + type(e).__name__)
    fl = (64 if m2 else 0) + (32 if p else 0)
    return hx.check((code, vendor, m, p, m2, payload), obs, (ref_avp(code, vendor, fl, payload),), "M/P/V flag setters")


# ----------------------------------------------------------------------------- 2. header, decode + cursor + re-encode
SENT = bytes.fromhex("0000012340000009ee000000")   # sentinel AVP: code 0x123, M, 1 byte 0xee


def _exp_type(code, vendor):
    """expected class for (code, vendor): symbolic runs read which dictionary group the abstraction forked into
    (groups are rebuilt from the live tables each run); concrete runs ask the real lookup"""
    if hx.SYMBOLIC and SYMTAB is not None:
        last = SYMTAB.last
        return (Avp if last is None else last[0]).__name__
    e = A.get_avp_dictionary_entry(code, vendor)
    return (Avp if e is None else e["type"]).__name__


def hdr_dec(wire: bytes) -> bool:
    """
    pre: len(wire) == P["hl"] + P["pay"] + P["padn"]
    pre: (wire[4] >= 128) == (P["hl"] == 12)
    pre: be_at(wire, 5, 3) == P["hl"] + P["pay"]
    pre: P["hl"] == 8 or be_at(wire, 8, 4) != 0
    pre: all(wire[P["hl"] + P["pay"] + k] == 0 for k in range(P["padn"]))
    post: _
    """
    hx.begin()
    hl, pay, padn = P["hl"], P["pay"], P["padn"]
    try:
        u = Unpacker(wire + SENT)
        a = Avp.from_unpacker(u)
        tn = _exp_type(a.code, a.vendor_id)
        pos = u.get_position()
        s = Avp.from_unpacker(u)
        obs = (a.code, a.vendor_id, a.flags, a.payload, pos, s.code, s.payload, u.is_done(), a.as_bytes(), type(a).__name__)
    except Exception as e:
        return hx.fail((wire,), "raised " + type(e).__name__)
    exp = (be_at(wire, 0, 4), be_at(wire, 8, 4) if hl == 12 else 0, wire[4], wire[hl:hl + pay], hl + pay + padn,
           0x123, b"\xee", True, wire, tn)
    return hx.check((wire,), obs, exp, "decode of a well-formed AVP (dictionary type dispatch) / cursor / re-encode")


def new_default_m(code: int, vendor: int, preq: int) -> bool:
    """
    pre: 0 <= code <= 0xffffffff and 0 <= vendor <= 0xffffffff and 0 <= preq <= 2
    post: _
    """
    hx.begin()
    mreq = P["mreq"]
    m_arg = [None, False, True][mreq]
    p_arg = [None, False, True][hx.concretize_range(preq, 0, 3)]
    try:
        a = Avp.new(code, vendor, is_mandatory=m_arg, is_private=p_arg)
        res = "ok"
    except ValueError:
        a = None
        res = "ValueError"
    except Exception as e:
        return hx.fail((code, vendor, preq), "raised " + type(e).__name__)
    if hx.SYMBOLIC and SYMTAB is not None:
        last = SYMTAB.last
    else:
        e = A.get_avp_dictionary_entry(code, vendor)
        last = None if e is None else (e["type"], e.get("mandatory"))
    if last is None:
        return hx.check((code, vendor, preq), (res,), ("ValueError",), "unknown (code, vendor) must be refused by Avp.new")
    exp_m = bool(last[1]) if m_arg is None else m_arg
    exp_p = bool(p_arg)
    obs = (res, type(a).__name__, a.code, a.vendor_id, a.is_mandatory, a.is_private, a.is_vendor, a.payload)
    exp = ("ok", last[0].__name__, code, vendor, exp_m, exp_p, vendor != 0, b"")
    return hx.check((code, vendor, preq), obs, exp, "Avp.new: dictionary class, default M from the entry unless overridden")


def register_rt(tidx: int, vmode: int, mand: int) -> bool:
    """
    pre: 0 <= tidx < len(REG_TYPES) and 0 <= mand <= 2 and 0 <= vmode <= 2
    pre: P.get("fixed") is None or [tidx, vmode, mand] == P["fixed"]
    post: _
    """
    hx.begin()
    tidx, vmode, mand = hx.concretize_range(tidx, 0, len(REG_TYPES)), hx.concretize_range(vmode, 0, 3), hx.concretize_range(mand, 0, 3)
    T = REG_TYPES[tidx]
    code = P["code"]
    if P.get("spread"):
        # every path registers at a (code) of its own, so that no path depends on what an earlier path of the same worker
        # process left behind in a cache the implementation may keep (a counterexample must reproduce in a fresh process)
        code = (code + (tidx * 9 + vmode * 3 + mand) * 8) % (1 << 32)
    withvendor = vmode == 1
    # vmode 0: vendor omitted; 1: a vendor id; 2: the explicit 0 that means "no vendor" everywhere else in the API
    vendor = [None, P["vendor"], 0][vmode]
    m = [None, False, True][mand]
    from diameter.message.avp import dictionary as D
    saved0 = D.AVP_DICTIONARY.get(code)
    savedv = dict(D.AVP_VENDOR_DICTIONARY.get(P["vendor"], {})) if P["vendor"] in D.AVP_VENDOR_DICTIONARY else None
    savedz = dict(D.AVP_VENDOR_DICTIONARY.get(0, {})) if 0 in D.AVP_VENDOR_DICTIONARY else None
    try:
        # the three inputs are choices, fixed above: the scenario runs natively (CrossHair switches functools.lru_cache off while
        # tracing, and a memo that survives from an earlier *path* of the same worker process would not reproduce in the replay)
        with hx.untraced():
            v = vendor or 0
            w = ref_avp(code, v, 0, b"")
            if P.get("seen_before"):
                # the (code, vendor) pair has been met before its definition exists: decoded as an unknown AVP, refused by Avp.new
                pre = Avp.from_bytes(w)
                try:
                    Avp.new(code, v)
                except Exception:
                    pass
                A.get_avp_dictionary_entry(code, v)
                if P["seen_before"] == 2:
                    # ... or an earlier definition of another type is being replaced
                    A.register(code, "X-Old", REG_TYPES[(tidx + 1) % len(REG_TYPES)], vendor=vendor)
                    Avp.from_bytes(w)
                    Avp.new(code, v)
            A.register(code, "X-Registered", T, vendor=vendor, mandatory=m)
            a = Avp.new(code, v)
            b = Avp.from_bytes(w)
            other = A.get_avp_dictionary_entry(code, 0 if withvendor else P["vendor"])
            obs = (type(a).__name__, a.is_mandatory, a.name, type(b).__name__, b.name, other is None or other.get("name") != "X-Registered")
    except Exception as e:
        return hx.fail((tidx, vmode, mand), "raised " + type(e).__name__)
    finally:
        if saved0 is None:
            D.AVP_DICTIONARY.pop(code, None)
        else:
            D.AVP_DICTIONARY[code] = saved0
        if savedv is None:
            D.AVP_VENDOR_DICTIONARY.pop(P["vendor"], None)
        else:
            D.AVP_VENDOR_DICTIONARY[P["vendor"]] = savedv
        if savedz is None:
            D.AVP_VENDOR_DICTIONARY.pop(0, None)
        else:
            D.AVP_VENDOR_DICTIONARY[0] = savedz
    return hx.check((tidx, vmode, mand), obs, (T.__name__, bool(m), "X-Registered", T.__name__, "X-Registered", True),
                    "definitions registered at run time are honoured by Avp.new and the decoder")


def grp_inplace(c1: int, f1: int, u1: int, u2: int, how: int) -> bool:
    """
    pre: 0xf0000000 <= c1 <= 0xffffffff and 0 <= f1 <= 255 and 0 <= u1 <= 0xffffffff and 0 <= u2 <= 0xffffffff and 0 <= how <= 3
    post: _
    """
    hx.begin()
    how = hx.concretize_range(how, 0, 4)
    inputs = (c1, f1, u1, u2, how)
    try:
        g = AvpGrouped(GRP)
        k1 = AvpUnsigned32(c1, 0, flags=f1)
        k1.value = u1
        k2 = AvpUnsigned32(c1, 0, flags=f1)
        k2.value = u2
        if how == 0:
            g.value.append(k1)               # the idiom documented in AvpGrouped.value
            g.value.append(k2)
            kids = [(u1,), (u2,)]
        elif how == 1:
            g.value = [k1]
            g.value.append(k2)               # append to an assigned list
            kids = [(u1,), (u2,)]
        elif how == 2:
            g.value = [k1, k2]
            k1.value = u2                    # a member modified after it was assigned
            kids = [(u2,), (u2,)]
        else:
            d0 = Avp.from_bytes(ref_avp(GRP, 0, 0, ref_avp(c1, 0, f1, be(u1, 4))))
            d0.value.append(k2)              # append to the list of a decoded grouped AVP
            g = d0
            kids = [(u1,), (u2,)]
        w = g.as_bytes()
        d = Avp.from_bytes(w)
        obs = (w, [(x.payload,) for x in d.value])
    except Exception as e:
        return hx.fail(inputs, "raised " + type(e).__name__)
    if "c01_grouped_inplace" in P.get("carve", ()):
        # known finding: the encoded form is the snapshot taken by the last assignment to .value (or the decoded bytes);
        # what is still checked is exactly that snapshot contract
        kids = [[], [(u1,)], [(u1,), (u2,)], [(u1,)]][how]
    refpl = b"".join(ref_avp(c1, 0, f1, be(k[0], 4)) for k in kids)
    return hx.check(inputs, obs, (ref_avp(GRP, 0, 0, refpl), [(be(k[0], 4),) for k in kids]), "Grouped: the list handed out by .value is the value - members appended or changed in place are encoded")


def repro_grouped_inplace():
    """known finding: members appended to / changed in the list handed out by AvpGrouped.value are not encoded"""
    g = AvpGrouped(GRP)
    k = AvpUnsigned32(0xf0000001, 0)
    k.value = 7
    g.value.append(k)
    w = g.as_bytes()
    return len(Avp.from_bytes(w).value) != 1, "AvpGrouped().value.append(avp) encodes %d members" % len(Avp.from_bytes(w).value)


REG_TYPES = [AvpOctetString, AvpUtf8String, AvpInteger32, AvpInteger64, AvpUnsigned32, AvpUnsigned64, AvpFloat32, AvpFloat64,
             AvpTime, AvpAddress, AvpGrouped]


# ----------------------------------------------------------------------------- 3. integers
INT_TYPES = {
    "Integer32": (AvpInteger32, 4, True), "Integer64": (AvpInteger64, 8, True),
    "Unsigned32": (AvpUnsigned32, 4, False), "Unsigned64": (AvpUnsigned64, 8, False),
    "Enumerated": (AvpEnumerated, 4, True)}


def _dom(name):
    cls, n, signed = INT_TYPES[name]
    bits = 8 * n
    return (-(1 << (bits - 1)), (1 << (bits - 1)) - 1) if signed else (0, (1 << bits) - 1)


def int_enc(v: int) -> bool:
    """
    pre: P["lo"] <= v <= P["hi"]
    post: _
    """
    hx.begin()
    cls, n, signed = INT_TYPES[P["type"]]
    try:
        a = cls(7, 0)
        a.value = v
        obs = (a.payload, a.length)
    except Exception as e:
        return hx.fail((v,), "raised " + type(e).__name__)
    pl = be(v if v >= 0 else v + (1 << (8 * n)), n)
    return hx.check((v,), obs, (pl, 8 + n), "integer layout (big-endian two's complement)")


def int_dec(pl: bytes) -> bool:
    """
    pre: len(pl) == P["n"]
    post: _
    """
    hx.begin()
    cls, n, signed = INT_TYPES[P["type"]]
    try:
        v = cls(7, 0, pl).value
        obs = (v,)
    except Exception as e:
        return hx.fail((pl,), "raised " + type(e).__name__)
    u = be_at(pl, 0, n)
    ev = u - (1 << (8 * n)) if (signed and pl[0] >= 128) else u
    return hx.check((pl,), obs, (ev,), "integer decode")


def int_out(v: int, hi_side: bool) -> bool:
    """
    pre: (hi_side and P["hi"] < v <= P["hi"] + (1 << 70)) or ((not hi_side) and P["lo"] - (1 << 70) <= v < P["lo"])
    post: _
    """
    hx.begin()
    cls, n, signed = INT_TYPES[P["type"]]
    a = cls(7, 0, b"\x01" * n)
    r1 = "no error"
    try:
        a.value = v
    except Exception:
        r1 = "rejected"
    r2 = "no error"
    try:
        Avp.new(P["code"], 0, value=v)
    except AvpEncodeError:
        r2 = "AvpEncodeError"
    except Exception as e:
        r2 = type(e).__name__
    return hx.check((v, hi_side), (r1, r2, a.payload), ("rejected", "AvpEncodeError", b"\x01" * n),
                    "out-of-domain integer must be rejected, payload untouched")


# ----------------------------------------------------------------------------- 4. octets / untyped
def oct_rt(which: bool, data: bytes) -> bool:
    """
    pre: len(data) <= P["maxpay"]
    post: _
    """
    hx.begin()
    code = 25 if which else 0xfffffff0       # Class (OctetString) / a code the dictionary does not know
    try:
        a = AvpOctetString(code)
        a.value = data
        w = a.as_bytes()
        b = Avp.from_bytes(w)
        g = Avp(code)
        g.value = data
        obs = (w, b.payload, b.value, b.code, g.as_bytes())
    except Exception as e:
        return hx.fail((which, data), "raised " + type(e).__name__)
    r = ref_avp(code, 0, 0, data)
    return hx.check((which, data), obs, (r, data, data, code, r), "OctetString / untyped round trip")


def oct_reject(kind: int) -> bool:
    """
    pre: 0 <= kind <= 3
    post: _
    """
    hx.begin()
    bad = ["text", 5, None, bytearray(b"ab")][hx.concretize_range(kind, 0, 4)]
    a = AvpOctetString(1)
    try:
        a.value = bad
        r = "no error"
    except AvpEncodeError:
        r = "AvpEncodeError"
    except Exception as e:
        r = type(e).__name__
    return hx.check((kind,), (r, a.payload), ("AvpEncodeError", b""), "non-bytes must be rejected")


# ----------------------------------------------------------------------------- 5. UTF8String
def ref_utf8(s):
    out = b""
    for ch in s:
        c = ord(ch)
        if c < 0x80:
            out += bytes([c])
        elif c < 0x800:
            out += bytes([0xC0 + c // 64, 0x80 + c % 64])
        elif 0xD800 <= c <= 0xDFFF:
            return None
        elif c < 0x10000:
            out += bytes([0xE0 + c // 4096, 0x80 + (c // 64) % 64, 0x80 + c % 64])
        else:
            out += bytes([0xF0 + c // 262144, 0x80 + (c // 4096) % 64, 0x80 + (c // 64) % 64, 0x80 + c % 64])
    return out


def utf8_rt(s: str) -> bool:
    """
    pre: len(s) <= P["maxchars"]
    pre: all(not (0xD800 <= ord(ch) <= 0xDFFF) for ch in s)
    post: _
    """
    hx.begin()
    r = ref_utf8(s)
    a = AvpUtf8String(1)
    try:
        a.value = s
        res = "ok"
    except AvpEncodeError:
        res = "AvpEncodeError"
    except Exception as e:
        res = type(e).__name__
    if r is None:
        return hx.check((s,), (res, a.payload), ("AvpEncodeError", b""), "surrogates are not encodable: must be rejected")
    try:
        w = a.as_bytes()
        back = Avp.from_bytes(ref_avp(1, 0, 0x40, r))
        obs = (res, a.payload, w, type(back).__name__, back.value)
    except Exception as e:
        return hx.fail((s,), "raised " + type(e).__name__)
    return hx.check((s,), obs, ("ok", r, ref_avp(1, 0, 0, r), "AvpUtf8String", s), "UTF8String layout / round trip")



def utf8_surrogate(c: int, pre_c: int) -> bool:
    """
    pre: P["lo"] <= c < P["hi"] and pre_c in (0x20, 0x7e)
    post: _
    """
    hx.begin()
    # CrossHair's str.encode model encodes lone surrogates instead of raising (seen: counterexample that did not
    # reproduce), so the surrogate code point is realised here: per-value paths through CPython's real codec.
    cc = hx.concretize_range(c, P["lo"], P["hi"])
    pc = hx.concretize(pre_c)
    s = (chr(pc) if P["pos"] else "") + chr(cc) + ("" if P["pos"] else chr(pc))
    a = AvpUtf8String(1)
    try:
        a.value = s
        res = "no error"
    except AvpEncodeError:
        res = "AvpEncodeError"
    except Exception as e:
        res = type(e).__name__
    return hx.check((c, pre_c), (res, a.payload), ("AvpEncodeError", b""), "lone surrogate must be rejected, not encoded")


# ----------------------------------------------------------------------------- 6. Time (NTP eras, RFC 6733 4.3.1 / RFC 5905 / RFC 2030 3.)
NTP_1900 = 2208988800            # seconds 1900-01-01 .. 1970-01-01
ROLLOVER = (1 << 32) - NTP_1900  # 2085978496 = 2036-02-07 06:28:16 UTC
T_MIN = (1 << 31) - NTP_1900     # -61505152  = 1968-01-20 03:14:08 UTC
T_MAX = ROLLOVER + (1 << 31) - 1  # 4233462143 = 2104-02-26 09:42:23 UTC


def mk_dt(secs):
    if hx.SYMBOLIC:
        from engine.stubs import SymDT
        return SymDT(secs)
    import datetime
    return datetime.datetime.fromtimestamp(secs)


def dt_secs(dt):
    return int(dt.timestamp())


def time_enc(secs: int) -> bool:
    """
    pre: T_MIN <= secs <= T_MAX
    post: _
    """
    hx.begin()
    try:
        a = AvpTime(55)
        a.value = mk_dt(secs)
        back = dt_secs(AvpTime(55, 0, a.payload).value)
        obs = (a.payload, back)
    except Exception as e:
        return hx.fail((secs,), "raised " + type(e).__name__)
    return hx.check((secs,), obs, (be((secs + NTP_1900) % (1 << 32), 4), secs), "Time: NTP seconds modulo 2^32 with the 2036 rollover")


def time_dec(pl: bytes) -> bool:
    """
    pre: len(pl) == 4
    post: _
    """
    hx.begin()
    try:
        v = dt_secs(AvpTime(55, 0, pl).value)
    except Exception as e:
        return hx.fail((pl,), "raised " + type(e).__name__)
    n = be_at(pl, 0, 4)
    exp = n - NTP_1900 if pl[0] >= 128 else n + ROLLOVER
    return hx.check((pl,), (v,), (exp,), "Time decode: era 0 when the MSB is set, era 1 otherwise")


def time_out(secs: int) -> bool:
    """
    pre: -(1 << 33) <= secs <= (1 << 34) and (secs < T_MIN or secs > T_MAX)
    pre: ("c01_time_wrap" not in P["carve"]) or secs < -NTP_1900 or secs >= ROLLOVER + (1 << 32)
    post: _
    """
    hx.begin()
    a = AvpTime(55, 0, b"\x01\x02\x03\x04")
    try:
        a.value = mk_dt(secs)
        res = "no error"
    except AvpEncodeError:
        res = "AvpEncodeError"
    except Exception as e:
        res = type(e).__name__
    return hx.check((secs,), (res, a.payload), ("AvpEncodeError", b"\x01\x02\x03\x04"), "date outside 1968-01-20..2104-02-26 must be rejected, not wrapped")


def time_reject(kind: int) -> bool:
    """
    pre: 0 <= kind <= 2
    post: _
    """
    hx.begin()
    bad = [1700000000, "2023-08-25 00:34:12", None][hx.concretize_range(kind, 0, 4)]
    a = AvpTime(55)
    try:
        a.value = bad
        r = "no error"
    except AvpEncodeError:
        r = "AvpEncodeError"
    except Exception as e:
        r = type(e).__name__
    return hx.check((kind,), (r, a.payload), ("AvpEncodeError", b""), "non-datetime must be rejected")


def repro_time_wrap():
    """known finding: a 1960 date is encoded by wrapping (decodes as 2096) instead of being rejected"""
    import datetime
    a = AvpTime(55)
    try:
        a.value = datetime.datetime(1960, 1, 1)
    except AvpEncodeError:
        return False, "rejected"
    return True, "datetime(1960,1,1) encoded as %s, decodes as %s" % (a.payload.hex(), a.value)


# ----------------------------------------------------------------------------- 7. Address
def addr_dec(pl: bytes) -> bool:
    """
    pre: 2 <= len(pl) <= P["maxlen"]
    pre: be_at(pl, 0, 2) != 1 or len(pl) == 6
    pre: be_at(pl, 0, 2) != 2 or len(pl) == 18
    pre: be_at(pl, 0, 2) != 8 or all(0x20 <= b < 0x7f for b in pl[2:])
    pre: P["fam"] == -1 or be_at(pl, 0, 2) == P["fam"]
    pre: P["fam"] != -1 or be_at(pl, 0, 2) not in (1, 2, 8)
    pre: P["fam"] != 1 or (pl[2] in ADDR_BYTES and pl[3] in (0, 255) and pl[4] in ADDR_BYTES and pl[5] in (1, 254))
    pre: P["fam"] != 2 or (pl[2] in (0, 0x20, 0xff) and pl[3] in (0, 1) and pl[4] in (0, 0xff) and all(pl[k] == pl[4] for k in range(5, 8)) and all(pl[k] == 0 for k in range(8, 16)) and pl[16] in (0, 0xff) and pl[17] in (0, 1, 0xff))
    post: _
    """
    hx.begin()
    import socket
    try:
        fam, text = AvpAddress(257, 0, pl).value
    except Exception as e:
        return hx.fail((pl,), "raised " + type(e).__name__)
    f = be_at(pl, 0, 2)
    body = bytes(pl[2:])
    if f == 1:
        ok = text == "%d.%d.%d.%d" % tuple(body)
    elif f == 2:
        ok = socket.inet_pton(socket.AF_INET6, text) == body          # the text denotes exactly these 16 octets
    elif f == 8:
        ok = text == "".join(chr(b) for b in body)
    else:
        ok = text == "".join("%02x" % b for b in body)
    return hx.holds((pl,), fam == f and ok, (fam, text), "Address family dispatch / text form")


def addr_dec_v6(a: int, b: int, c: int, d: int, e: int) -> bool:
    """
    pre: 0 <= a <= 2 and 0 <= b <= 1 and 0 <= c <= 1 and 0 <= d <= 1 and 0 <= e <= 2
    post: _
    """
    hx.begin()
    # family 2 with 16 address octets: the same 72 class representatives the symbolic form of addr_dec enumerated through its
    # preconditions (at 7 s per path, never finishing within the quick budget) - here as five choice indices, fixed first
    import socket
    idx = [hx.concretize_range(a, 0, 3), hx.concretize_range(b, 0, 2), hx.concretize_range(c, 0, 2), hx.concretize_range(d, 0, 2), hx.concretize_range(e, 0, 3)]
    inputs = (a, b, c, d, e)
    try:
        with hx.untraced():
            body = bytes([(0, 0x20, 0xff)[idx[0]], (0, 1)[idx[1]]] + [(0, 0xff)[idx[2]]] * 4 + [0] * 8 + [(0, 0xff)[idx[3]], (0, 1, 0xff)[idx[4]]])
            pl = b"\x00\x02" + body
            fam, text = AvpAddress(257, 0, pl).value
            back = socket.inet_pton(socket.AF_INET6, text)
            short = None
            try:
                AvpAddress(257, 0, pl[:-1]).value
                short = "no error"
            except AvpDecodeError:
                short = "AvpDecodeError"
            except Exception as ex:
                short = type(ex).__name__
            obs = (fam, back == body, short)
    except Exception as ex:
        return hx.fail(inputs, "raised " + type(ex).__name__)
    return hx.check(inputs, obs, (2, True, "AvpDecodeError"), "IPv6 address: family 2, the text denotes exactly the 16 octets; 15 octets are rejected with the decode error")


ADDR_BYTES = [0, 1, 9, 10, 99, 100, 127, 128, 255]


def addr_enc_v4(i0: int, i1: int, i2: int, i3: int) -> bool:
    """
    pre: 0 <= i0 < 9 and 0 <= i1 < 9 and 0 <= i2 < 2 and 0 <= i3 < 2
    post: _
    """
    hx.begin()
    bs = [ADDR_BYTES[hx.concretize_range(i0, 0, 9)], ADDR_BYTES[hx.concretize_range(i1, 0, 9)], [0, 255][hx.concretize_range(i2, 0, 2)], [1, 254][hx.concretize_range(i3, 0, 2)]]
    text = "%d.%d.%d.%d" % tuple(bs)
    try:
        a = AvpAddress(257)
        a.value = text
        back = AvpAddress(257, 0, a.payload).value
        n = Avp.new(257, value=back)       # the (family, text) pair is accepted back
        obs = (a.payload, back, n.payload)
    except Exception as e:
        return hx.fail((i0, i1, i2, i3), "raised " + type(e).__name__)
    pl = b"\x00\x01" + bytes(bs)
    return hx.check((i0, i1, i2, i3), obs, (pl, (1, text), pl), "IPv4 address: family 1 + 4 octets")


V6_TEXTS = ["::", "::1", "2001:db8::1", "fe80::1:2:3:4", "1:2:3:4:5:6:7:8", "ffff:ffff:ffff:ffff:ffff:ffff:ffff:ffff",
            "::ffff:1.2.3.4", "2001:db8:0:0:1:0:0:1"]


def addr_enc_v6(i: int) -> bool:
    """
    pre: 0 <= i < len(V6_TEXTS)
    post: _
    """
    hx.begin()
    import socket
    text = V6_TEXTS[hx.concretize_range(i, 0, len(V6_TEXTS))]
    try:
        a = AvpAddress(257)
        a.value = text
        fam, back = AvpAddress(257, 0, a.payload).value
        obs = (a.payload, fam, socket.inet_pton(socket.AF_INET6, back))
    except Exception as e:
        return hx.fail((i,), "raised " + type(e).__name__)
    raw = socket.inet_pton(socket.AF_INET6, text)
    return hx.check((i,), obs, (b"\x00\x02" + raw, 2, raw), "IPv6 address: family 2 + 16 octets")


def addr_enc_e164(s: str) -> bool:
    """
    pre: 1 <= len(s) <= P["maxchars"] and all(ch in "0123456789" for ch in s)
    post: _
    """
    hx.begin()
    try:
        a = AvpAddress(257)
        a.value = s
        back = AvpAddress(257, 0, a.payload).value
        obs = (a.payload, back)
    except Exception as e:
        return hx.fail((s,), "raised " + type(e).__name__)
    return hx.check((s,), obs, (b"\x00\x08" + bytes(ord(ch) for ch in s), (8, s)), "E.164 address: family 8 + digits")


E164_POOL = ["0", "9", "A", " ", "+", "\u00f6", "\u07ff", "\u0800", "\uff14", "\uffff", "\U00010000", "\U0010ffff"]


def addr_enc_text(n: int, i0: int, i1: int, i2: int, i3: int) -> bool:
    """
    pre: 1 <= n <= P["maxchars"] and all(0 <= i < len(E164_POOL) for i in (i0, i1, i2, i3))
    pre: (n >= 2 or i1 == 0) and (n >= 3 or i2 == 0) and (n >= 4 or i3 == 0)
    post: _
    """
    hx.begin()
    # any text without '.' and ':' is an address of family 8 (E.164) whose data is its UTF-8 encoding: characters of every
    # UTF-8 length class (the octet count differs from the character count)
    nn = hx.concretize_range(n, 1, 5)
    idx = [hx.concretize_range(i, 0, len(E164_POOL)) for i in (i0, i1, i2, i3)][:nn]
    txt = "".join(E164_POOL[i] for i in idx)
    inputs = (n, i0, i1, i2, i3)
    try:
        with hx.untraced():               # every input is fixed above: the codec runs natively on the concrete text
            a = AvpAddress(257)
            a.value = txt
            whole = a.as_bytes()
            back = Avp.from_bytes(whole).value
            obs = (a.payload, back, len(whole))
            data = b"\x00\x08" + ref_utf8(txt)
    except Exception as e:
        return hx.fail(inputs, "raised " + type(e).__name__)
    return hx.check(inputs, obs, (data, (8, txt), 8 + len(data) + (-len(data)) % 4), "text address: family 8 + UTF-8 octets, AVP length counts octets, decodes back to the text")


def addr_reject(kind: int) -> bool:
    """
    pre: 0 <= kind <= 3
    post: _
    """
    hx.begin()
    bad = ["1.2.3", "1.2.3.256", "12:zz::1", 42][hx.concretize_range(kind, 0, 4)]
    a = AvpAddress(257)
    try:
        a.value = bad
        r = "no error"
    except AvpEncodeError:
        r = "AvpEncodeError"
    except Exception as e:
        r = type(e).__name__
    return hx.check((kind,), (r, a.payload), ("AvpEncodeError", b""), "malformed address text must be rejected")


# ----------------------------------------------------------------------------- 8. Float32/64 (class representatives)
def ref_float(bits, ebits, mbits):
    """IEEE-754 value of a bit pattern, by integer arithmetic (no struct)"""
    import math
    sign = bits >> (ebits + mbits)
    e = (bits >> mbits) & ((1 << ebits) - 1)
    m = bits & ((1 << mbits) - 1)
    bias = (1 << (ebits - 1)) - 1
    if e == (1 << ebits) - 1:
        v = math.inf if m == 0 else math.nan
    elif e == 0:
        v = math.ldexp(m, 1 - bias - mbits)
    else:
        v = math.ldexp(m + (1 << mbits), e - bias - mbits)
    return -v if sign else v


F_EXP = {8: [0, 1, 127, 128, 254, 255], 11: [0, 1, 1023, 1024, 2046, 2047]}
F_MAN = {23: [0, 1, 0x400000, 0x400001, 0x7fffff], 52: [0, 1, 1 << 51, (1 << 51) + 1, (1 << 52) - 1]}


def float_rt(sign: int, ei: int, mi: int) -> bool:
    """
    pre: 0 <= sign <= 1 and 0 <= ei < 6 and 0 <= mi < 5
    post: _
    """
    hx.begin()
    import math
    ebits, mbits = P["ebits"], P["mbits"]
    cls = AvpFloat32 if ebits == 8 else AvpFloat64
    nbytes = (1 + ebits + mbits) // 8
    sign, ei, mi = hx.concretize_range(sign, 0, 2), hx.concretize_range(ei, 0, 6), hx.concretize_range(mi, 0, 5)
    e, m = F_EXP[ebits][ei], F_MAN[mbits][mi]
    if e == (1 << ebits) - 1 and m not in (0,) and m < (1 << (mbits - 1)):
        m = m + (1 << (mbits - 1))        # signalling NaNs may be quietened by the FPU: quiet NaNs only
    bits = (sign << (ebits + mbits)) | (e << mbits) | m
    pl = bits.to_bytes(nbytes, "big")
    try:
        v = cls(1, 0, pl).value
        a = cls(1)
        a.value = v
        w = a.as_bytes()
    except Exception as ex:
        return hx.fail((sign, ei, mi), "raised " + type(ex).__name__)
    r = ref_float(bits, ebits, mbits)
    same = (math.isnan(v) and math.isnan(r)) or (v == r and math.copysign(1.0, v) == math.copysign(1.0, r))
    return hx.holds((sign, ei, mi), same and a.payload == pl and w == ref_avp(1, 0, 0, pl), (a.payload, w),
                    "float decode == IEEE value of the bits; re-encode is bit-exact")


def float_reject(kind: int) -> bool:
    """
    pre: 0 <= kind <= 3
    post: _
    """
    hx.begin()
    cls, bad = [(AvpFloat32, 1e39), (AvpFloat32, -3.5e38 * 10), (AvpFloat32, "1.0"), (AvpFloat64, "x")][hx.concretize_range(kind, 0, 4)]
    kind = hx.concretize(kind)
    a = cls(1, 0, b"\x00\x00\x00\x01")
    try:
        a.value = bad
        r = "no error"
    except Exception:
        r = "rejected"             # the property asks for "an error"; Avp.new turns any of them into AvpEncodeError
    try:
        Avp.new(496 if cls is AvpFloat32 else 603, 0 if cls is AvpFloat32 else 193, value=bad)
        r2 = "no error"
    except AvpEncodeError:
        r2 = "AvpEncodeError"
    except Exception as e:
        r2 = type(e).__name__
    return hx.check((kind,), (r, r2, a.payload), ("rejected", "AvpEncodeError", b"\x00\x00\x00\x01"), "unrepresentable float must be rejected (no inf substitution)")


# ----------------------------------------------------------------------------- 9. Grouped
GRP = 443        # Subscription-Id (Grouped) ; 456 Multiple-Services-Credit-Control (Grouped)
GRP2 = 456


def grp_rt(c1: int, v1: int, f1: int, p1: bytes, c2: int, f2: int, p2: bytes) -> bool:
    """
    pre: 0xf0000000 <= c1 <= 0xffffffff and 0 <= v1 <= 0xffffffff and 0 <= f1 <= 255 and len(p1) == P["l1"]
    pre: 0xf0000000 <= c2 <= 0xffffffff and 0 <= f2 <= 255 and len(p2) == P["l2"]
    post: _
    """
    hx.begin()
    depth = P["depth"]
    try:
        k1 = Avp(c1, v1, p1, f1)
        k2 = Avp(c2, 0, p2, f2)
        inner = [k1, k2]
        refpl = ref_avp(c1, v1, f1, p1) + ref_avp(c2, 0, f2, p2)
        g = AvpGrouped(GRP)
        g.value = inner
        for _ in range(depth - 1):
            outer = AvpGrouped(GRP2)
            outer.value = [g, Avp(c2, 0, p2, f2)]
            refpl = ref_avp(g.code, 0, 0, refpl) + ref_avp(c2, 0, f2, p2)
            g = outer
        w = g.as_bytes()
        d = Avp.from_bytes(w)
        # walk down the decoded tree
        node = d
        shape = []
        for _ in range(depth - 1):
            kids = node.value
            shape.append((type(node).__name__, len(kids), kids[1].code, kids[1].flags, kids[1].payload))
            node = kids[0]
        kids = node.value
        leaf = (type(node).__name__, len(kids), kids[0].code, kids[0].vendor_id, kids[0].flags, kids[0].payload,
                kids[1].code, kids[1].flags, kids[1].payload)
        again = d.as_bytes()
        # cache coherence: re-assignment re-encodes, reading returns the new list
        node.value = [kids[1]]
        after = (node.payload, len(node.value), node.value[0].code)
        obs = (g.payload, w, again, tuple(shape), leaf, after)
    except Exception as e:
        return hx.fail((c1, v1, f1, p1, c2, f2, p2), "raised " + type(e).__name__)
    top = GRP if depth == 1 else GRP2
    eshape = tuple(("AvpGrouped", 2, c2, f2 % 128, p2) for _ in range(depth - 1))
    ff1 = (f1 % 128 + 128) if v1 else f1 % 128
    eleaf = ("AvpGrouped", 2, c1, v1, ff1, p1, c2, f2 % 128, p2)
    exp = (refpl, ref_avp(top, 0, 0, refpl), ref_avp(top, 0, 0, refpl), eshape, eleaf, (ref_avp(c2, 0, f2, p2), 1, c2))
    return hx.check((c1, v1, f1, p1, c2, f2, p2), obs, exp, "Grouped: payload = concatenated children; lazy decode; cache coherence")


# ----------------------------------------------------------------------------- engine setup per obligation
SYMTAB = None


def setup(p):
    global SYMTAB
    if not hx.SYMBOLIC:
        return
    from engine import symtab, stubs
    if SYMTAB is None:
        SYMTAB = symtab.AvpDictAbstraction()
    if p.get("symdict"):
        SYMTAB.install()
    else:
        SYMTAB.uninstall()
    if p.get("symdt"):
        stubs.install_datetime_double()


# ----------------------------------------------------------------------------- direct z3 lemmas (sizes, lookup)
def size_probe(n: int) -> bool:
    """concrete replay of a size-lemma model: an AVP with an n-byte payload"""
    hx.begin()
    data = bytes((i * 7 + 1) % 256 for i in range(n))
    a = Avp(0xfffffff0, 0, data)
    w = a.as_bytes()
    u = Unpacker(w + SENT)
    b = Avp.from_unpacker(u)
    pos = u.get_position()
    return hx.check((n,), (w, b.payload, pos), (ref_avp(0xfffffff0, 0, 0, data), data, 8 + n + pad4(n)), "size arithmetic at payload length n")


def lookup_probe(code: int, vendor: int, in_base: bool, in_vendors: bool, in_vtbl: bool) -> bool:
    """concrete replay of a lookup-lemma model: arrange the tables as in the model, compare with the specification"""
    hx.begin()
    from diameter.message.avp import dictionary as D
    sb = D.AVP_DICTIONARY.pop(code, None)
    sv = D.AVP_VENDOR_DICTIONARY.pop(vendor, None)
    try:
        if in_base:
            D.AVP_DICTIONARY[code] = {"name": "B", "type": AvpOctetString}
        if in_vendors:
            D.AVP_VENDOR_DICTIONARY[vendor] = {}
            if in_vtbl:
                D.AVP_VENDOR_DICTIONARY[vendor][code] = {"name": "V", "type": AvpOctetString, "vendor": vendor}
        try:
            e = A.get_avp_dictionary_entry(code, vendor)
            got = None if e is None else e["name"]
        except Exception as ex:
            got = type(ex).__name__
        if vendor == 0:
            exp = "B" if in_base else None
        else:
            exp = "V" if (in_vendors and in_vtbl) else None
    finally:
        D.AVP_DICTIONARY.pop(code, None)
        D.AVP_VENDOR_DICTIONARY.pop(vendor, None)
        if sb is not None:
            D.AVP_DICTIONARY[code] = sb
        if sv is not None:
            D.AVP_VENDOR_DICTIONARY[vendor] = sv
    return hx.check((code, vendor, in_base, in_vendors, in_vtbl), (got,), (exp,), "dictionary lookup vs. specification")


def lemmas(tier, src):
    import z3
    from engine import lemmas as L, codec
    import diameter.message.packer as PK
    out = []
    n, i, w = z3.Ints("n i w")

    def ceil4(x):
        return ((x + 3) / 4) * 4
    dom = z3.And(n >= 0, n < (1 << 24) - 12, i >= 0, i < (1 << 30), w >= 0, w < (1 << 32))

    def model_n(res):
        if res["verdict"] == "refuted":
            nv = int(res["model"].get("n", "0"))
            res["replay"] = {"fn": "size_probe", "args": codec.enc((nv,))}
        return res

    def l1():
        e = L.ev(L.find_assign(L.fn_ast(Avp.as_packed), "padded_payload_length").value, {"len(self.payload)": n})
        return model_n(L.decide("lemma/as_packed.padded==ceil4(len)", e == ceil4(n), dom, detail="(len(payload)+3) & ~3 for all n < 2^24-12"))

    def l2():
        e = L.ev(L.find_assign(L.fn_ast(PK.Packer.pack_fstring), "n").value, {"n": n})
        return model_n(L.decide("lemma/pack_fstring.n'==ceil4(n)", e == ceil4(n), dom, detail="((n+3)//4)*4"))

    def l3():
        e = L.ev(L.find_assign(L.fn_ast(PK.Unpacker.unpack_fstring), "j").value, {"n": n, "i": i})
        return model_n(L.decide("lemma/unpack_fstring.j==i+ceil4(n)", e == i + ceil4(n), dom, detail="decoder consumes exactly the padded size"))

    def l4():
        fd = L.fn_ast(Avp.from_unpacker)
        e_len = L.ev(L.find_assign(fd, "avp_length", 0).value, {"flags_len": w})
        e_flg = L.ev(L.find_assign(fd, "avp_flags", 0).value, {"flags_len": w})
        return L.decide("lemma/from_unpacker.field_split", z3.And(e_len == w % (1 << 24), e_flg == w / (1 << 24)), dom,
                        detail="flags_len >> 24 and & 0x00ffffff split the 32-bit word")

    def l5():
        # as_packed: length | (flags << 24) == length + flags * 2^24 whenever 0 <= length < 2^24 (bit-disjoint), and Avp.length == hdr + n
        fd = L.fn_ast(Avp.as_packed)
        call = None
        import ast
        for nd in ast.walk(fd):
            if isinstance(nd, ast.BinOp) and isinstance(nd.op, ast.BitOr):
                call = nd
        if call is None:
            raise L.Unsupported("no `length | flags << 24` expression")
        ln, fl = z3.Ints("length flags")
        e = L.ev(call, {"self.length": ln, "flags": fl, "__disjoint_or": True})
        d2 = z3.And(ln >= 0, ln < (1 << 24), fl >= 0, fl < 256)
        r = L.decide("lemma/as_packed.len_flags_word", z3.And(e == ln + fl * (1 << 24), e < (1 << 32)), d2, detail="length | flags<<24 is the 8|24 bit word (operands bit-disjoint for length < 2^24)")
        return r

    def l6():
        # Avp.length: hdr 8 (+4 with vendor) + len(payload)
        import ast
        fd = L.fn_ast(Avp.length)
        rets = sorted([nd for nd in ast.walk(fd) if isinstance(nd, ast.Return)], key=lambda nd: nd.lineno)
        if len(rets) != 2:
            raise L.Unsupported("Avp.length shape changed")
        hdr = z3.Int("hdr_length")
        e = L.ev(rets[1].value, {"hdr_length": hdr, "len(self.payload)": n})
        return L.decide("lemma/Avp.length==hdr+len", e == hdr + n, z3.And(dom, z3.Or(hdr == 8, hdr == 12)), detail="length counts header plus unpadded data")

    for lid, b in (("lemma/as_packed.padded", l1), ("lemma/pack_fstring", l2), ("lemma/unpack_fstring", l3), ("lemma/field_split", l4),
                   ("lemma/len_flags_word", l5), ("lemma/Avp.length", l6)):
        out.append(L.guarded(lid, b))
    out.append(L.guarded("lemma/lookup==spec", _lookup_lemma))
    out.append(_lookup_enumeration())
    return out


def lookup_enum_probe(code: int, vendor: int) -> bool:
    """concrete replay of one cell of the lookup cross product"""
    hx.begin()
    from diameter.message.avp import dictionary as D
    e = A.get_avp_dictionary_entry(code, vendor)
    if vendor == 0:
        exp = D.AVP_DICTIONARY.get(code)
    else:
        exp = D.AVP_VENDOR_DICTIONARY.get(vendor, {}).get(code)
    return hx.check((code, vendor), (None if e is None else e.get("name"),), (None if exp is None else exp.get("name"),), "dictionary lookup vs. the tables")


def _lookup_enumeration():
    """the real lookup on the cross product (all known codes + unknown ones) x (all known vendors + 0 + unknown + an empty vendor table):
    a finite table, enumerated (not solved); the lemma above is the solver-side statement over all table contents"""
    import time as _t
    from engine import codec
    from diameter.message.avp import dictionary as D
    t0 = _t.perf_counter()
    codes = set(D.AVP_DICTIONARY)
    for v, tbl in D.AVP_VENDOR_DICTIONARY.items():
        codes |= set(tbl)
    codes |= {0, 0xfffffff0, 0xffffffff}
    vendors = set(D.AVP_VENDOR_DICTIONARY) | {0, 1, 0x7fffffff, 0xffffffff}
    bad = None
    n = 0
    for v in vendors:
        tbl = D.AVP_DICTIONARY if v == 0 else D.AVP_VENDOR_DICTIONARY.get(v, {})
        for cd in codes:
            n += 1
            try:
                e = A.get_avp_dictionary_entry(cd, v)
            except Exception as ex:
                e = ex
            if e is not tbl.get(cd):
                bad = (cd, v)
                break
        if bad:
            break
    res = {"id": "table/lookup_cross_product", "solver_checks": 0, "solver_time_s": 0,
           "detail": "finite table: enumerated, not solved (%d (code, vendor) cells, %d vendors incl. 0, unknown ones and empty tables; %.1f s)" % (n, len(vendors), _t.perf_counter() - t0),
           "verdict": "discharged" if bad is None else "refuted"}
    if bad:
        res["model"] = {"code": bad[0], "vendor": bad[1]}
        res["replay"] = {"fn": "lookup_enum_probe", "args": codec.enc(bad)}
    return res


def _lookup_lemma():
    """get_avp_dictionary_entry's AST over uninterpreted tables == specification, for all (code, vendor) and all table contents"""
    import ast
    import z3
    from engine import lemmas as L, codec
    fn = L.fn_ast(A.get_avp_dictionary_entry)
    code, vendor = z3.Ints("avp_code vendor_id")
    In0 = z3.Function("in_base", z3.IntSort(), z3.BoolSort())
    InV = z3.Function("in_vendors", z3.IntSort(), z3.BoolSort())
    InVC = z3.Function("in_vendor_tbl", z3.IntSort(), z3.IntSort(), z3.BoolSort())
    E0 = z3.Function("base_entry", z3.IntSort(), z3.IntSort())
    EV = z3.Function("vendor_entry", z3.IntSort(), z3.IntSort(), z3.IntSort())
    NONE, ERR = z3.IntVal(-1), z3.IntVal(-2)
    env = {fn.args.args[0].arg: code, fn.args.args[1].arg: vendor}

    def table(node):
        if isinstance(node, ast.Name) and node.id == "AVP_DICTIONARY":
            return ("base",)
        if isinstance(node, ast.Name) and node.id == "AVP_VENDOR_DICTIONARY":
            return ("vendors",)
        if isinstance(node, ast.Subscript) and table(node.value) == ("vendors",):
            return ("vendor", expr(node.slice))
        raise L.Unsupported(ast.dump(node)[:120])

    def expr(node):
        if isinstance(node, ast.Name) and node.id in env:
            return env[node.id]
        if isinstance(node, ast.Constant) and isinstance(node.value, int):
            return z3.IntVal(node.value)
        if isinstance(node, ast.Constant) and node.value is None:
            return NONE
        if isinstance(node, ast.Subscript):
            t = table(node.value)
            k = expr(node.slice)
            if t == ("base",):
                return z3.If(In0(k), E0(k), ERR)
            if t[0] == "vendor":
                return z3.If(z3.And(InV(t[1]), InVC(t[1], k)), EV(t[1], k), ERR)
        raise L.Unsupported(ast.dump(node)[:120])

    def cond(node):
        """returns (value, raises) : boolean value and 'evaluating it raises KeyError' with short-circuit semantics"""
        if isinstance(node, ast.BoolOp):
            vals = [cond(v) for v in node.values]
            val, err = vals[0]
            for (v2, e2) in vals[1:]:
                if isinstance(node.op, ast.And):
                    err = z3.Or(err, z3.And(val, e2))
                    val = z3.And(val, v2)
                else:
                    err = z3.Or(err, z3.And(z3.Not(val), e2))
                    val = z3.Or(val, v2)
            return val, err
        if isinstance(node, ast.UnaryOp) and isinstance(node.op, ast.Not):
            v, e = cond(node.operand)
            return z3.Not(v), e
        if isinstance(node, ast.Compare) and len(node.ops) == 1:
            op, l, r = node.ops[0], node.left, node.comparators[0]
            if isinstance(op, (ast.In, ast.NotIn)):
                t = table(r)
                k = expr(l)
                if t == ("base",):
                    m, e = In0(k), z3.BoolVal(False)
                elif t == ("vendors",):
                    m, e = InV(k), z3.BoolVal(False)
                else:
                    m, e = InVC(t[1], k), z3.Not(InV(t[1]))      # D[v] raises KeyError when v is absent
                return (m if isinstance(op, ast.In) else z3.Not(m)), e
            a, b = expr(l), expr(r)
            return {ast.Eq: a == b, ast.NotEq: a != b, ast.Lt: a < b, ast.LtE: a <= b, ast.Gt: a > b, ast.GtE: a >= b}[type(op)], z3.BoolVal(False)
        raise L.Unsupported(ast.dump(node)[:120])

    def block(stmts):
        for idx, s in enumerate(stmts):
            if isinstance(s, ast.Expr) and isinstance(s.value, ast.Constant):
                continue
            if isinstance(s, ast.Return):
                return expr(s.value) if s.value else NONE
            if isinstance(s, ast.If):
                rest = stmts[idx + 1:]
                v, e = cond(s.test)
                return z3.If(e, ERR, z3.If(v, block(s.body + rest), block((s.orelse or []) + rest)))
            raise L.Unsupported(ast.dump(s)[:120])
        return NONE
    impl = block(fn.body)
    spec = z3.If(vendor == 0, z3.If(In0(code), E0(code), NONE),
                 z3.If(z3.And(InV(vendor), InVC(vendor, code)), EV(vendor, code), NONE))
    dom = z3.And(code >= 0, vendor >= 0, z3.ForAll([code], E0(code) >= 0), z3.ForAll([code, vendor], EV(vendor, code) >= 0))
    s = z3.Solver()
    s.set("timeout", 60000)
    s.add(code >= 0, vendor >= 0)
    # entries are objects (>= 0), distinct from NONE/ERR
    kc, kv = z3.Ints("kc kv")
    s.add(z3.ForAll([kc], E0(kc) >= 0), z3.ForAll([kc, kv], EV(kv, kc) >= 0))
    s.add(impl != spec)
    import time as _t
    t0 = _t.perf_counter()
    r = s.check()
    res = {"id": "lemma/lookup==spec", "solver_checks": 1, "solver_time_s": round(_t.perf_counter() - t0, 3),
           "detail": "get_avp_dictionary_entry AST == 'vendor 0 -> base table; vendor != 0 -> that vendor's table; else None' for all (code, vendor) and all table contents"}
    if r == z3.unsat:
        res["verdict"] = "discharged"
    elif r == z3.sat:
        m = s.model()
        cv, vv = m.eval(code, True).as_long(), m.eval(vendor, True).as_long()
        args = (cv, vv, bool(z3.is_true(m.eval(In0(code), True))), bool(z3.is_true(m.eval(InV(vendor), True))), bool(z3.is_true(m.eval(InVC(vendor, code), True))))
        res["verdict"] = "refuted"
        res["model"] = {"args": list(args)}
        res["replay"] = {"fn": "lookup_probe", "args": codec.enc(args)}
    else:
        res["verdict"] = "inconclusive"
        res["detail"] += " (z3: unknown)"
    return res


# ----------------------------------------------------------------------------- spec list
def specs(tier, seed, carve):
    q = tier == "quick"
    out = []
    maxpay = 5 if q else 9
    out.append(dict(id="hdr_enc", fn="hdr_enc", params={"maxpay": maxpay}, timeout=120 if q else 600,
                    bound="code, vendor in [0,2^32), flags in [0,256), payload <= %d B" % maxpay))
    out.append(dict(id="hdr_mp", fn="hdr_mp", params={}, timeout=120, bound="all codes/vendors, all M/P requests, payload <= 3 B"))
    for hl in (8, 12):
        for pay in range(0, maxpay + 1):
            out.append(dict(id="hdr_dec/hl%d/pay%d" % (hl, pay), fn="hdr_dec", params={"hl": hl, "pay": pay, "padn": pad4(pay), "symdict": True},
                            timeout=120 if q else 400,
                            bound="every well-formed wire AVP (all codes/vendors incl. every dictionary key, all flag octets) with header %d and %d payload bytes, followed by a sentinel AVP" % (hl, pay)))
    for mreq in (0, 1, 2):
        out.append(dict(id="new_default_m/m%d" % mreq, fn="new_default_m", params={"symdict": True, "mreq": mreq, "opaquefmt": True}, timeout=150,
                        bound="every (code, vendor) in [0,2^32)^2 incl. every dictionary key; M request %s; P request in {default, False, True}" % ["default", "False", "True"][mreq]))
    import random
    rnd = random.Random(seed)
    for k in range(3 if q else 9):
        code = rnd.randrange(0xf0000000, 0xfffff000) + k * 1024
        out.append(dict(id="register_rt/%d" % k, fn="register_rt", params={"code": code, "vendor": rnd.choice([99999, 10415, 1, 0xfffffffe]), "spread": True, "seen_before": k % 3}, timeout=120,
                        bound="11 type classes x vendor {omitted, given, explicit 0} x mandatory in {None, False, True} at seeded (code, vendor) pairs, one pair per combination; the pair %s" % (
                            ["has never been looked up before", "was decoded / requested before it is defined", "had another definition that was used before it is replaced"][k % 3])))
    # definitions of the stock dictionary replaced at run time after they have been used (one combination per obligation and code)
    for j, code in enumerate([1, 263, 8, 296] if q else [1, 263, 8, 296, 264, 283, 25, 55]):
        out.append(dict(id="register_rt/stock%d" % code, fn="register_rt", params={"code": code, "vendor": 10415, "seen_before": 1, "fixed": [j % len(REG_TYPES), j % 3, j % 3]}, timeout=60,
                        bound="stock AVP %d used, then redefined at run time (one type / vendor mode / mandatory combination)" % code))
    out.append(dict(id="grp_inplace", fn="grp_inplace", params={"symdict": True}, timeout=120,
                    bound="grouped AVP whose member list is changed in place (append to a fresh / assigned / decoded list, member value changed after assignment); member code, flag octet and both Unsigned32 values symbolic"))
    codes = {"Integer32": 47, "Integer64": 447, "Unsigned32": 5, "Unsigned64": 287, "Enumerated": 6}
    for name in INT_TYPES:
        lo, hi = _dom(name)
        n = INT_TYPES[name][1]
        out.append(dict(id="int_enc/" + name, fn="int_enc", params={"type": name, "lo": lo, "hi": hi}, timeout=90, bound="whole domain [%d, %d]" % (lo, hi)))
        out.append(dict(id="int_dec/" + name, fn="int_dec", params={"type": name, "n": n}, timeout=90, bound="every %d-byte payload" % n))
        out.append(dict(id="int_out/" + name, fn="int_out", params={"type": name, "lo": lo, "hi": hi, "code": codes[name], "opaquefmt": True}, timeout=90,
                        bound="every integer within 2^70 outside the domain"))
    out.append(dict(id="oct_rt", fn="oct_rt", params={"maxpay": maxpay}, timeout=120 if q else 400, bound="every octet string <= %d B (each length mod 4); OctetString and untyped" % maxpay))
    out.append(dict(id="oct_reject", fn="oct_reject", params={}, timeout=30, bound="str, int, None, bytearray"))
    out.append(dict(id="utf8_rt", fn="utf8_rt", params={"maxchars": 2 if q else 3}, timeout=150 if q else 900, path_timeout=30,
                    bound="every str of <= %d code points, all of Unicode except surrogates" % (2 if q else 3)))
    step = 256
    for pos in (0, 1):
        for lo in range(0xD800, 0xE000, step):
            if q and (lo // step + pos) % 4 != seed % 4:
                continue
            out.append(dict(id="utf8_surrogate/pos%d/%04x" % (pos, lo), fn="utf8_surrogate", params={"pos": pos, "lo": lo, "hi": lo + step}, timeout=120,
                            bound="every surrogate code point in [%#x, %#x) next to a symbolic ASCII char (code point realised: per-value paths)" % (lo, lo + step)))
    out.append(dict(id="time_enc", fn="time_enc", params={"symdt": True}, timeout=60, bound="every whole second of 1968-01-20 03:14:08 .. 2104-02-26 09:42:23 UTC"))
    out.append(dict(id="time_dec", fn="time_dec", params={"symdt": True}, timeout=60, bound="every 4-byte payload"))
    out.append(dict(id="time_out", fn="time_out", params={"symdt": True, "opaquefmt": True}, timeout=60, bound="every second in [-2^33, 2^34] outside the documented range" + (" minus the known-finding class (NTP value still fits 32 bits)" if "c01_time_wrap" in carve else "")))
    out.append(dict(id="time_reject", fn="time_reject", params={}, timeout=30, bound="int, str, None"))
    out.append(dict(id="addr_dec_v6", fn="addr_dec_v6", params={}, timeout=120,
                    bound="Address payloads of family 2: 72 class representatives of the 16 octets (and each with its last octet cut off), native after the choices are fixed"))
    for fam in ((1, 8, -1) if q else (1, 2, 8, -1)):          # (the symbolic family-2 form needs the thorough budget)
        out.append(dict(id="addr_dec/fam%d" % fam, fn="addr_dec", params={"fam": fam, "maxlen": 18 if fam == 2 else (3 if fam == -1 else (6 if q else 8))}, timeout=(500 if fam == 2 else 120) if q else 900,
                        bound="well-formed Address payloads of family %s (IP content realised at inet_ntop)" % (fam if fam >= 0 else "other (all 65533)")))
    out.append(dict(id="addr_enc_v4", fn="addr_enc_v4", params={}, timeout=200, bound="9x9x2x2 IPv4 texts from boundary octets (content realised at inet_pton)"))
    out.append(dict(id="addr_enc_v6", fn="addr_enc_v6", params={}, timeout=60, bound="8 IPv6 texts (compressed, full, v4-mapped, all-ones)"))
    out.append(dict(id="addr_enc_text", fn="addr_enc_text", params={"maxchars": 3 if q else 4}, timeout=900 if q else 3000,
                    bound="every text of 1..3 (thorough: 4) characters from a pool of 12 (digits, letters, space, '+', and the first/last code point of every UTF-8 length class)"))
    out.append(dict(id="addr_enc_e164", fn="addr_enc_e164", params={"maxchars": 2 if q else 3}, timeout=200 if q else 900, bound="every digit string of 1..%d chars" % (2 if q else 3)))
    out.append(dict(id="addr_reject", fn="addr_reject", params={}, timeout=30, bound="4 malformed texts"))
    out.append(dict(id="float_rt/32", fn="float_rt", params={"ebits": 8, "mbits": 23}, timeout=120, bound="2 signs x 6 exponents x 5 mantissas: +-0, denormal, normal, max, inf, quiet NaN (class representatives)"))
    out.append(dict(id="float_rt/64", fn="float_rt", params={"ebits": 11, "mbits": 52}, timeout=120, bound="same classes for binary64"))
    out.append(dict(id="float_reject", fn="float_reject", params={}, timeout=30, bound="doubles beyond binary32, non-floats"))
    lens = [(1, 2), (3, 4)] if q else [(0, 1), (3, 2), (1, 4), (2, 0), (5, 3), (4, 4)]
    for depth in ((1, 2) if q else (1, 2, 3)):
        for (l1, l2) in lens:
            out.append(dict(id="grp_rt/depth%d/len%d_%d" % (depth, l1, l2), fn="grp_rt", params={"depth": depth, "l1": l1, "l2": l2, "symdict": True}, timeout=200 if q else 600,
                            bound="2 symbolic children per level (codes >= 0xf0000000, one with symbolic vendor, all flag octets, payloads of %d and %d symbolic bytes), nesting %d" % (l1, l2, depth)))
    return out
