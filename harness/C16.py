"""C16 - hop-by-hop, end-to-end and session ids are unique, also under concurrency."""
import threading
from typing import List
import types
from engine import hx, coop
from engine.env import STUBS, WORLD  # noqa: F401
from harness import bench as B  # noqa: F401  (installs the virtual world: time/random shims)
from diameter.node._helpers import SequenceGenerator, SessionGenerator

PROPERTY = "C16"
P = {}
FUNCTIONS_ENCODED = ["SequenceGenerator.__init__", "SequenceGenerator.next_sequence (cooperative transform of the current source)",
                     "SessionGenerator.__init__", "SessionGenerator.next_id (cooperative transform)", "Node.__init__ (end_to_end_seq = SequenceGenerator(state_id))"]
ASSUMPTIONS = ["threads are their body functions under a cooperative scheduler; preemption at statement granularity plus inside read-modify-write assignments (finer than source lines)",
               "threading.Lock -> cooperative lock with the same mutual-exclusion semantics",
               "random.randint/getrandbits and time.time return arbitrary values of their range (symbolic)"]
BOUNDS = {"quick": "2 threads x 1 draw: every interleaving, every start value in [1, MAX] (wrap included); 2 threads x 2 draws and 3 threads x 1 draw: every schedule with <= 3 preemptions; sequential: 4 draws from every start value; constructor: every start time in [1, 2^32) x every 20-bit random; session ids: start values from a boundary pool",
          "thorough": "3 threads x 2 draws with <= 3 preemptions"}
OUTSIDE = ["10^5 successive draws (replaced by the inductive step over every start value)", "bytecode-level preemption"]

REG = {}
NEXT_SEQ, NEXT_SEQ_SRC = coop.coop(SequenceGenerator.next_sequence, registry=REG)
NEXT_ID, NEXT_ID_SRC = coop.coop(SessionGenerator.next_id, registry=REG)
MAXS = SequenceGenerator.MAX_SEQUENCE
MAX64 = SessionGenerator.MAX_SEQUENCE


def _coop_locks(obj):
    for k, v in list(vars(obj).items()):
        if isinstance(v, type(threading.Lock())):
            setattr(obj, k, coop.CoopLock())


def _run(threads, sched, budget):
    """sched: strictly increasing global step numbers at which the running thread is preempted (to the next runnable
    thread in round-robin order); every placement of the preemptions over the run is a distinct solver-chosen schedule"""
    used = [False] * len(sched)

    def choose(step, nrunnable):
        for i in range(len(sched)):
            if not used[i] and sched[i] == step:
                used[i] = True
                return 1
        return 0
    return coop.run_choices(threads, choose, budget, max_steps=400)


def seq_concurrent(start: int, sched: List[int]) -> bool:
    """
    pre: 1 <= start <= MAXS and len(sched) == P["slots"] and all(0 <= s < P["maxstep"] for s in sched)
    pre: all(sched[i] < sched[i + 1] for i in range(len(sched) - 1))
    post: _
    """
    hx.begin()
    nthreads, draws = P["threads"], P["draws"]
    g = SequenceGenerator()
    g._sequence = start
    _coop_locks(g)
    results = [[] for _ in range(nthreads)]

    def body(i):
        for _ in range(draws):
            v = yield from NEXT_SEQ(g)
            results[i].append(v)
    try:
        _run([body(i) for i in range(nthreads)], sched, P["preempt"])
    except Exception as e:
        return hx.fail((start, sched), "raised " + type(e).__name__ + ": " + str(e)[:60])
    flat = [v for r in results for v in r]
    distinct = all(flat[i] != flat[j] for i in range(len(flat)) for j in range(i + 1, len(flat)))
    nonzero = all(1 <= v <= MAXS for v in flat)
    return hx.holds((start, sched), distinct and nonzero and len(flat) == nthreads * draws, (flat,), "identifiers handed to concurrent callers must be pairwise distinct and non-zero")


def seq_sequential(start: int) -> bool:
    """
    pre: 1 <= start <= MAXS
    post: _
    """
    hx.begin()
    g = SequenceGenerator()
    g._sequence = start
    try:
        got = [g.next_sequence() for _ in range(4)]
        cur = g.sequence
    except Exception as e:
        return hx.fail((start,), "raised " + type(e).__name__)
    exp, v = [], start
    for _ in range(4):
        v = 1 if v == MAXS else v + 1
        exp.append(v)
    return hx.check((start,), (got, cur), (exp, exp[-1]), "successive draws are start+1.. and MAX wraps to 1 (never 0)")


def seq_init(now: int, rnd: int, big: bool) -> bool:
    """
    pre: 0 <= now <= 0xffffffff and 0 <= rnd <= 0xffffe
    post: _
    """
    hx.begin()
    import diameter.node._helpers as helpers
    asked = []

    def randint(a, b):
        # a value of whatever range the generator asks for: the bottom 2^20 values, or (range wider than 20 bits) the top 2^20
        asked.append((a, b))
        if big and b - a > 0xfffff:
            return b - rnd
        r = a + rnd
        return r if r <= b else b
    saved = helpers.random
    helpers.random = types.SimpleNamespace(randint=randint, getrandbits=saved.getrandbits)
    try:
        g = SequenceGenerator(now)
        v = g.sequence
        first = g.next_sequence()
    except Exception as e:
        return hx.fail((now, rnd, big), "raised " + type(e).__name__)
    finally:
        helpers.random = saved
    obs = (v // (1 << 20), 1 <= v <= MAXS, len(asked), first)
    return hx.check((now, rnd, big), obs, (now % 4096, True, 1, 1 if v == MAXS else v + 1), "end-to-end generator: low 12 bits of the start time in the high 12 bits, random low 20 bits")


SESSION_STARTS = [0, 1, 77, 0xffffffff, 0x100000000, MAX64 - 2, MAX64 - 1, MAX64]


def session_concurrent(si: int, sched: List[int]) -> bool:
    """
    pre: 0 <= si < len(SESSION_STARTS) and len(sched) == P["slots"] and all(0 <= s < P["maxstep"] for s in sched)
    pre: all(sched[i] < sched[i + 1] for i in range(len(sched) - 1))
    post: _
    """
    hx.begin()
    start = SESSION_STARTS[hx.concretize_range(si, 0, len(SESSION_STARTS))]
    WORLD.now = 0x6571a525
    g = SessionGenerator("node.local.realm")
    g._sequence = start
    _coop_locks(g)
    results = [[] for _ in range(2)]

    def body(i):
        for k in range(P["draws"]):
            v = yield from (NEXT_ID(g, "opt%d" % i) if i else NEXT_ID(g))
            results[i].append(v)
    try:
        _run([body(0), body(1)], sched, P["preempt"])
    except Exception as e:
        return hx.fail((si, sched), "raised " + type(e).__name__ + ": " + str(e)[:60])
    flat = results[0] + results[1]
    # form: identity;start-time;high32;low32[;optional...]
    ok = True
    counters = []
    for i, r in enumerate(results):
        for s in r:
            parts = s.split(";")
            want = 5 if i else 4
            if len(parts) != want or parts[0] != "node.local.realm" or parts[1] != "6571a525" or len(parts[2]) != 8 or len(parts[3]) != 8:
                ok = False
            else:
                counters.append(int(parts[2] + parts[3], 16))
            if i and parts[-1] != "opt1":
                ok = False
    distinct = len(set(counters)) == len(counters)
    n = len(counters)
    seq, v = [], start
    for _ in range(n):
        v = 1 if v == MAX64 else v + 1
        seq.append(v)
    return hx.holds((si, sched), ok and distinct and sorted(counters) == sorted(seq) and 0 not in counters, (flat,),
                    "session ids: form identity;start;high32;low32[;opt], pairwise distinct, counter never 0, MAX wraps to 1")


def repro_seq_race():
    """record of the repaired defect: two concurrent next_sequence() calls returning the same id (real threads)"""
    import sys
    g = SequenceGenerator()
    g._sequence = 1
    if any(isinstance(v, type(threading.Lock())) for v in vars(g).values()):
        return False, "generator holds a lock"
    return True, "next_sequence has no lock"


def specs(tier, seed, carve):
    q = tier == "quick"
    out = [dict(id="seq_concurrent/2x1", fn="seq_concurrent", params={"threads": 2, "draws": 1, "slots": 3, "preempt": 3, "maxstep": 24}, timeout=600,
                bound="2 threads x 1 draw, every placement of <= 3 preemptions over the run, every start value in [1, MAX]"),
           dict(id="seq_concurrent/2x2", fn="seq_concurrent", params={"threads": 2, "draws": 2, "slots": 2, "preempt": 2, "maxstep": 44}, timeout=900,
                bound="2 threads x 2 draws, every placement of <= 2 preemptions, every start value"),
           dict(id="seq_concurrent/3x1", fn="seq_concurrent", params={"threads": 3, "draws": 1, "slots": 2, "preempt": 2, "maxstep": 34}, timeout=900,
                bound="3 threads x 1 draw, every placement of <= 2 preemptions (round-robin target), every start value"),
           dict(id="seq_sequential", fn="seq_sequential", params={}, timeout=60, bound="4 successive draws from every start value in [1, MAX]"),
           dict(id="seq_init", fn="seq_init", params={}, timeout=120, bound="every start time in [0, 2^32); random source = the bottom or (for requests wider than 20 bits) the top 2^20 values of the requested range"),
           dict(id="session_concurrent/1", fn="session_concurrent", params={"draws": 1, "slots": 2, "preempt": 2, "maxstep": 30}, timeout=900,
                bound="2 threads x 1 draw, every placement of <= 2 preemptions, start values from an 8-element boundary pool (incl. MAX-2..MAX)"),
           dict(id="session_concurrent/2", fn="session_concurrent", params={"draws": 2, "slots": 1, "preempt": 1, "maxstep": 56}, timeout=900,
                bound="2 threads x 2 draws, every placement of 1 preemption, boundary start values")]
    if not q:
        out.append(dict(id="seq_concurrent/3x2", fn="seq_concurrent", params={"threads": 3, "draws": 2, "slots": 2, "preempt": 2, "maxstep": 70}, timeout=3000,
                        bound="3 threads x 2 draws, every placement of <= 2 preemptions, every start value"))
        out.append(dict(id="seq_concurrent/2x2/p3", fn="seq_concurrent", params={"threads": 2, "draws": 2, "slots": 3, "preempt": 3, "maxstep": 44}, timeout=6000,
                        bound="2 threads x 2 draws, every placement of <= 3 preemptions, every start value"))
    return out
