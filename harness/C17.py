"""C17 - retransmitted (T-flag) duplicates of answered requests are rejected, no others."""
from engine import hx
from engine.env import STUBS, WORLD  # noqa: F401
from harness import bench as B
from harness.bench import drain

PROPERTY = "C17"
P = {}
FUNCTIONS_ENCODED = ["Node._receive_message (T-flag branch, origin bookkeeping)", "Node._record_answer", "Node.send_message", "Node._receive_app_request",
                     "Application.send_answer", "Node.route_answer"]
ASSUMPTIONS = ["end-to-end ids from a 2-3 element pool (to force repeats), origin hosts from a 2-element pool; hop-by-hop ids distinct",
               "retransmit_queue_size is a concrete outer loop over 1..3 (a symbolic deque(maxlen=) is rejected by CrossHair)"]
BOUNDS = {"quick": "window sizes 1..3; two earlier requests with symbolic (origin, end-to-end id), each answered by the application / answered by the node itself (3007, or 5012 after the handler raised) / left pending, answers in either order; then (one configuration in the quick tier) a third earlier request answered (eviction); then the probed request with symbolic origin, id and T flag",
          "thorough": "the third earlier request for every window size and first request; end-to-end ids from a 3-element pool"}
OUTSIDE = ["12-request histories", "window size 4"]
ORIGINS = ["origin-a.realm", "origin-b.realm"]
E2E = [0x01000001, 2, 0xffffffff]


def _req(k, o, e, t=False, app=4):
    return B.ccr(ORIGINS[o], 100 + k, E2E[e], app=app, session="s;%d" % k, flags_extra=0x10 if t else 0)


def window(o1: int, e1: int, h1: int, o2: int, e2: int, h2: int, order: bool, o3: int, e3: int, h3: int, op: int, ep: int, t: bool) -> bool:
    """
    pre: 0 <= o1 <= 1 and 0 <= o2 <= 1 and 0 <= o3 <= 1 and 0 <= op <= 1
    pre: 0 <= e1 < P["ne"] and 0 <= e2 < P["ne"] and 0 <= e3 < P["ne"] and 0 <= ep < P["ne"]
    pre: o1 == P["o1"] and e1 == P["e1"] and 0 <= h1 <= 3 and 0 <= h2 <= 3 and 0 <= h3 <= 3
    pre: P["third"] or (o3 == 0 and e3 == 0 and h3 == 2)
    pre: P["node_answers"] or (h1 in (0, 2) and h2 in (0, 2) and h3 in (0, 2))
    pre: (h1 == 0 and h2 == 0) or not order
    post: _
    """
    hx.begin()
    size = P["size"]
    o1, e1 = P["o1"], P["e1"]
    o2, o3, op = (hx.concretize_range(x, 0, 2) for x in (o2, o3, op))
    e2, e3, ep = (hx.concretize_range(x, 0, P["ne"]) for x in (e2, e3, ep))
    # 0 = application answers, 1 = node answers (3007), 2 = stays pending, 3 = the handler raises and the node answers 5012 itself
    h1, h2, h3 = (hx.concretize_range(x, 0, 4) for x in (h1, h2, h3))
    inputs = (o1, e1, h1, o2, e2, h2, order, o3, e3, h3, op, ep, t)
    order, t = bool(hx.concretize(order)), bool(hx.concretize(t))
    try:
        # all inputs are fixed above: the rest of the path runs natively
        with hx.untraced():
            b = B.Bench(n_peers=1)
            n, app = b.node, b.apps[0]
            n.retransmit_queue_size = size
            c, s = b.make_ready(b.peers[0])
            win = {0: [], 1: []}

            def ref_answer(o, e):
                win[o].append(e)
                del win[o][:-size]
            # two requests arrive; those handled by the node itself are answered at once
            first = [(1, o1, e1, h1), (2, o2, e2, h2)]
            pending_app = []
            for (k, o, e, h) in first:
                app.raise_in_handler = h == 3
                b.inject(c, _req(k, o, e, app=9 if h == 1 else 4))
                app.raise_in_handler = False
                if h in (1, 3):
                    ref_answer(o, e)
                elif h == 0:
                    pending_app.append((k, o, e, app.requests[-1]))
            drain(c)
            if order:
                pending_app.reverse()
            for (k, o, e, r) in pending_app:
                app.send_answer(app.generate_answer(r, result_code=2001))
                ref_answer(o, e)
            drain(c)
            if P["third"]:
                app.raise_in_handler = h3 == 3
                b.inject(c, _req(3, o3, e3, app=9 if h3 == 1 else 4))
                app.raise_in_handler = False
                if h3 in (1, 3):
                    ref_answer(o3, e3)
                elif h3 == 0:
                    app.send_answer(app.generate_answer(app.requests[-1], result_code=2001))
                    ref_answer(o3, e3)
                drain(c)
            before = len(app.requests)
            b.inject(c, _req(9, op, ep, t=bool(t)))
            out = B.summarize(drain(c))
            delivered = len(app.requests) - before
            obs = (delivered, [(x[3], x[5]) for x in out])
    except Exception as e:
        return hx.fail(inputs, "raised %s: %s" % (type(e).__name__, str(e)[:80]))
    dup = bool(t) and (E2E[ep] in [E2E[x] for x in win[op]])
    exp = (0, [(109, 5012)]) if dup else (1, [])
    return hx.check(inputs, obs, exp, "a T-flagged request is rejected (5012, not delivered) iff (origin, end-to-end id) is among the last `size` answers to that origin")


def window_step(w0: int, w1: int, a1: int, a2: int, ep: int, t: bool) -> bool:
    """
    pre: w0 == P["w0"] and 0 <= w1 < 3 and 0 <= a1 < 3 and 0 <= a2 < 3 and 0 <= ep < 3
    post: _
    """
    hx.begin()
    from collections import deque
    size = P["size"]
    w1, a1, a2, ep = (hx.concretize_range(x, 0, 3) for x in (w1, a1, a2, ep))
    inputs = (w0, w1, a1, a2, ep, t)
    try:
        b = B.Bench(n_peers=1)
        n, app = b.node, b.apps[0]
        n.retransmit_queue_size = size
        c, s = b.make_ready(b.peers[0])
        pre = [E2E[P["w0"]], E2E[w1]][:size]
        n._sent_answers[ORIGINS[0].encode()] = deque(pre, maxlen=size)         # any reachable window of origin 0 (directly constructed)
        win = list(pre)
        for k, e in ((1, a1), (2, a2)):
            b.inject(c, _req(k, 0, e))
            app.send_answer(app.generate_answer(app.requests[-1], result_code=2001))
            win.append(E2E[e])
            del win[:-size]
        drain(c)
        before = len(app.requests)
        b.inject(c, _req(9, 0, ep, t=bool(t)))
        out = B.summarize(drain(c))
        obs = (len(app.requests) - before, [(x[3], x[5]) for x in out], list(n._sent_answers[ORIGINS[0].encode()]))
    except Exception as e:
        return hx.fail(inputs, "raised %s: %s" % (type(e).__name__, str(e)[:80]))
    dup = bool(t) and E2E[ep] in win
    exp = ((0, [(109, 5012)]) if dup else (1, [])) + (win + ([E2E[ep]] if dup else []),)
    if dup:
        w2 = win + [E2E[ep]]
        del w2[:-size]
        exp = (0, [(109, 5012)], w2)
    return hx.check(inputs, obs, exp, "the window is the last `size` answered ids (repeats included); the probe is rejected iff T is set and its id is in it")


def two_conns(ea: int, eb: int, ans_a: bool, ans_b: bool, order: bool, po: int, pe: int, t: bool) -> bool:
    """
    pre: 0 <= ea <= 1 and 0 <= eb <= 1 and 0 <= po <= 1 and 0 <= pe <= 1
    pre: (ans_a and ans_b) or not order
    pre: ("c17_equal_hbh_and_e2e_on_two_connections" not in P["carve"]) or P["ha"] != P["hb"] or ea != eb or not (ans_b and (order or not ans_a))
    post: _
    """
    hx.begin()
    ha, hb = P["ha"], P["hb"]
    ea, eb, po, pe = (hx.concretize_range(x, 0, 2) for x in (ea, eb, po, pe))
    inputs = (ea, eb, ans_a, ans_b, order, po, pe, t)
    try:
        b = B.Bench(n_peers=2)
        n, app = b.node, b.apps[0]
        c = [b.make_ready(b.peers[0], "10.0.1.1")[0], b.make_ready(b.peers[1], "10.0.1.2")[0]]
        origin = [B.PEER_HOSTS[0], B.PEER_HOSTS[1]]
        win = {0: [], 1: []}
        # two origin hosts on two connections; hop-by-hop and end-to-end ids are chosen independently by each peer
        b.inject(c[0], B.ccr(origin[0], ha, E2E[ea], session="a"))
        b.inject(c[1], B.ccr(origin[1], hb, E2E[eb], session="b"))
        reqs = list(app.requests)
        todo = [(0, reqs[0], E2E[ea])] * (1 if ans_a else 0) + [(1, reqs[1], E2E[eb])] * (1 if ans_b else 0)
        if order:
            todo.reverse()
        for (o, r, e) in todo:
            app.send_answer(app.generate_answer(r, result_code=2001))
            win[o].append(e)
        for x in c:
            drain(x)
        before = len(app.requests)
        b.inject(c[po], B.ccr(origin[po], 0x99, E2E[pe], session="p", flags_extra=0x10 if t else 0))
        out = B.summarize(drain(c[po]))
        obs = (len(app.requests) - before, [(x[3], x[5]) for x in out])
    except Exception as e:
        return hx.fail(inputs, "raised %s: %s" % (type(e).__name__, str(e)[:80]))
    dup = bool(t) and E2E[pe] in win[po]
    exp = (0, [(0x99, 5012)]) if dup else (1, [])
    return hx.check(inputs, obs, exp, "two origin hosts with independently chosen ids: a T-flagged request is rejected iff THAT origin's request with that end-to-end id was answered")


def repro_equal_ids_two_conns():
    """known finding: two connections hold pending requests with the same hop-by-hop AND end-to-end id; the answer to the
    second is transmitted (and booked) on the first connection"""
    hx.begin()
    b = B.Bench(n_peers=2)
    n, app = b.node, b.apps[0]
    c = [b.make_ready(b.peers[0], "10.0.1.1")[0], b.make_ready(b.peers[1], "10.0.1.2")[0]]
    b.inject(c[0], B.ccr(B.PEER_HOSTS[0], 1, 7, session="a"))
    b.inject(c[1], B.ccr(B.PEER_HOSTS[1], 1, 7, session="b"))
    app.send_answer(app.generate_answer(app.requests[1], result_code=2001))
    on0 = [m.session_id for m in drain(c[0]) if not m.header.is_request]
    on1 = [m.session_id for m in drain(c[1]) if not m.header.is_request]
    return on0 == ["b"], "answer to peer2's request (1, 7) queued on peer1's connection %r, on peer2's %r" % (on0, on1)


def specs(tier, seed, carve):
    q = tier == "quick"
    out = []
    ne = 2
    for (ha, hb) in ((1, 1), (1, 2)):
        out.append(dict(id="two_conns/h%d_%d" % (ha, hb), fn="two_conns", params={"ha": ha, "hb": hb}, timeout=900,
                        bound="two origin hosts on two connections, hop-by-hop ids %d/%d, end-to-end ids from a 2-element pool each (equal ids included), each answered or pending, both answer orders, then a probe from either origin" % (ha, hb)))
    for size in (1, 2):
        for w0 in range(3):
            out.append(dict(id="window_step/size%d/w%d" % (size, w0), fn="window_step", params={"size": size, "w0": w0}, timeout=900,
                            bound="window of size %d constructed directly with every content from a 3-id pool, two further answered requests with symbolic ids (repeats included), then the probe with symbolic id and T flag" % size))
    ne = 2 if q else 3
    for size in (1, 2, 3):
        for o1 in (0, 1):
            for e1 in range(ne):
                for third in (False, True):
                    if q and third and (size, o1, e1) != (2, 0, 0):
                        continue
                    out.append(dict(id="window/size%d/o%d_e%d%s" % (size, o1, e1, "/third" if third else ""), fn="window",
                                    params={"size": size, "o1": o1, "e1": e1, "ne": ne, "third": third, "node_answers": True}, timeout=1500,
                                    bound="window size %d; first request (origin %d, id %d); second%s request and the probed request fully symbolic over 2 origins x %d ids x T; each earlier request answered by the application / by the node (3007) / by the node after the handler raised (5012) or left pending; both answer orders" % (
                                        size, o1, e1, " and third" if third else "", ne)))
    return out


# ---------------------------------------------------------------------------------------------------------------------
# wire-level histories with this property's monitor (harness/uni.py): bytes in, bytes out, reference model of the far ends
from typing import List as _List  # noqa: E402
from harness import uni as U  # noqa: E402


def uni_history(ev: _List[int]) -> bool:
    """
    pre: len(ev) == P["depth"] and all(0 <= e < len(U.EVENTS) for e in ev)
    pre: all(ev[i] == P["prefix"][i] for i in range(len(P["prefix"])))
    post: _
    """
    return U.history_body(ev, P)


_own_specs = specs


def specs(tier, seed, carve):  # noqa: F811
    return _own_specs(tier, seed, carve) + U.specs(PROPERTY, tier, seed)


FUNCTIONS_ENCODED = list(FUNCTIONS_ENCODED) + U.FUNCTIONS
BOUNDS = {k: v + "; " + U.BOUNDS[k] for k, v in BOUNDS.items()}
OUTSIDE = list(OUTSIDE) + U.OUTSIDE
