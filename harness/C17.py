"""C17 - retransmitted (T-flag) duplicates of answered requests are rejected, no others."""
from engine import hx
from engine.env import STUBS, WORLD  # noqa: F401
from harness import bench as B
from harness.bench import drain

PROPERTY = "C17"
P = {}
FUNCTIONS_ENCODED = ["Node._receive_message (T-flag branch, origin bookkeeping)", "Node._record_answer", "Node.send_message", "Node._receive_app_request",
                     "Application.send_answer", "Node.route_answer"]
ASSUMPTIONS = ["end-to-end ids from a 2-3 element pool (to force repeats), origin hosts from a 2-element pool; hop-by-hop ids distinct",
               "retransmit_queue_size is a concrete outer loop over 1..3 (a symbolic deque(maxlen=) is rejected by CrossHair)"]
BOUNDS = {"quick": "window sizes 1..3; two earlier requests with symbolic (origin, end-to-end id), each answered by the application / answered by the node itself (3007) / left pending, answers in either order; then a third earlier request answered (eviction); then the probed request with symbolic origin, id and T flag",
          "thorough": "four earlier requests"}
OUTSIDE = ["12-request histories", "window size 4"]
ORIGINS = ["origin-a.realm", "origin-b.realm"]
E2E = [0x01000001, 2, 0xffffffff]


def _req(k, o, e, t=False, app=4):
    return B.ccr(ORIGINS[o], 100 + k, E2E[e], app=app, session="s;%d" % k, flags_extra=0x10 if t else 0)


def window(o1: int, e1: int, h1: int, o2: int, e2: int, h2: int, order: bool, o3: int, e3: int, h3: int, op: int, ep: int, t: bool) -> bool:
    """
    pre: 0 <= o1 <= 1 and 0 <= o2 <= 1 and 0 <= o3 <= 1 and 0 <= op <= 1
    pre: 0 <= e1 < P["ne"] and 0 <= e2 < P["ne"] and 0 <= e3 < P["ne"] and 0 <= ep < P["ne"]
    pre: o1 == P["o1"] and e1 == P["e1"] and 0 <= h1 <= 2 and 0 <= h2 <= 2 and 0 <= h3 <= 2
    pre: P["third"] or (o3 == 0 and e3 == 0 and h3 == 2)
    pre: P["node_answers"] or (h1 != 1 and h2 != 1 and h3 != 1)
    pre: (h1 == 0 and h2 == 0) or not order
    post: _
    """
    hx.begin()
    size = P["size"]
    o1, e1 = P["o1"], P["e1"]
    o2, o3, op = (hx.concretize_range(x, 0, 2) for x in (o2, o3, op))
    e2, e3, ep = (hx.concretize_range(x, 0, P["ne"]) for x in (e2, e3, ep))
    h1, h2, h3 = (hx.concretize_range(x, 0, 3) for x in (h1, h2, h3))     # 0 = application answers, 1 = node answers (3007), 2 = stays pending
    inputs = (o1, e1, h1, o2, e2, h2, order, o3, e3, h3, op, ep, t)
    try:
        b = B.Bench(n_peers=1)
        n, app = b.node, b.apps[0]
        n.retransmit_queue_size = size
        c, s = b.make_ready(b.peers[0])
        win = {0: [], 1: []}

        def ref_answer(o, e):
            win[o].append(e)
            del win[o][:-size]
        # two requests arrive; those handled by the node itself are answered at once
        first = [(1, o1, e1, h1), (2, o2, e2, h2)]
        pending_app = []
        for (k, o, e, h) in first:
            b.inject(c, _req(k, o, e, app=9 if h == 1 else 4))
            if h == 1:
                ref_answer(o, e)
            elif h == 0:
                pending_app.append((k, o, e, app.requests[-1]))
        drain(c)
        if order:
            pending_app.reverse()
        for (k, o, e, r) in pending_app:
            app.send_answer(app.generate_answer(r, result_code=2001))
            ref_answer(o, e)
        drain(c)
        if P["third"]:
            b.inject(c, _req(3, o3, e3, app=9 if h3 == 1 else 4))
            if h3 == 1:
                ref_answer(o3, e3)
            elif h3 == 0:
                app.send_answer(app.generate_answer(app.requests[-1], result_code=2001))
                ref_answer(o3, e3)
            drain(c)
        before = len(app.requests)
        b.inject(c, _req(9, op, ep, t=bool(t)))
        out = B.summarize(drain(c))
        delivered = len(app.requests) - before
        obs = (delivered, [(x[3], x[5]) for x in out])
    except Exception as e:
        return hx.fail(inputs, "raised %s: %s" % (type(e).__name__, str(e)[:80]))
    dup = bool(t) and (E2E[ep] in [E2E[x] for x in win[op]])
    exp = (0, [(109, 5012)]) if dup else (1, [])
    return hx.check(inputs, obs, exp, "a T-flagged request is rejected (5012, not delivered) iff (origin, end-to-end id) is among the last `size` answers to that origin")


def window_step(w0: int, w1: int, a1: int, a2: int, ep: int, t: bool) -> bool:
    """
    pre: w0 == P["w0"] and 0 <= w1 < 3 and 0 <= a1 < 3 and 0 <= a2 < 3 and 0 <= ep < 3
    post: _
    """
    hx.begin()
    from collections import deque
    size = P["size"]
    w1, a1, a2, ep = (hx.concretize_range(x, 0, 3) for x in (w1, a1, a2, ep))
    inputs = (w0, w1, a1, a2, ep, t)
    try:
        b = B.Bench(n_peers=1)
        n, app = b.node, b.apps[0]
        n.retransmit_queue_size = size
        c, s = b.make_ready(b.peers[0])
        pre = [E2E[P["w0"]], E2E[w1]][:size]
        n._sent_answers[ORIGINS[0].encode()] = deque(pre, maxlen=size)         # any reachable window of origin 0 (directly constructed)
        win = list(pre)
        for k, e in ((1, a1), (2, a2)):
            b.inject(c, _req(k, 0, e))
            app.send_answer(app.generate_answer(app.requests[-1], result_code=2001))
            win.append(E2E[e])
            del win[:-size]
        drain(c)
        before = len(app.requests)
        b.inject(c, _req(9, 0, ep, t=bool(t)))
        out = B.summarize(drain(c))
        obs = (len(app.requests) - before, [(x[3], x[5]) for x in out], list(n._sent_answers[ORIGINS[0].encode()]))
    except Exception as e:
        return hx.fail(inputs, "raised %s: %s" % (type(e).__name__, str(e)[:80]))
    dup = bool(t) and E2E[ep] in win
    exp = ((0, [(109, 5012)]) if dup else (1, [])) + (win + ([E2E[ep]] if dup else []),)
    if dup:
        w2 = win + [E2E[ep]]
        del w2[:-size]
        exp = (0, [(109, 5012)], w2)
    return hx.check(inputs, obs, exp, "the window is the last `size` answered ids (repeats included); the probe is rejected iff T is set and its id is in it")


def specs(tier, seed, carve):
    q = tier == "quick"
    out = []
    ne = 2
    for size in (1, 2):
        for w0 in range(3):
            out.append(dict(id="window_step/size%d/w%d" % (size, w0), fn="window_step", params={"size": size, "w0": w0}, timeout=900,
                            bound="window of size %d constructed directly with every content from a 3-id pool, two further answered requests with symbolic ids (repeats included), then the probe with symbolic id and T flag" % size))
    for size in ((1, 2) if q else (1, 2, 3)):
        for o1 in (0, 1):
            for e1 in range(ne):
                for third in ((False,) if q else (False, True)):
                    if third and size == 3:
                        continue
                    out.append(dict(id="window/size%d/o%d_e%d%s" % (size, o1, e1, "/third" if third else ""), fn="window",
                                    params={"size": size, "o1": o1, "e1": e1, "ne": ne, "third": third, "node_answers": not q}, timeout=6000 if third else 900,
                                    bound="window size %d; first request (origin %d, id %d); second%s request and the probed request fully symbolic over 2 origins x %d ids x T; each earlier request answered by the application%s or left pending; both answer orders" % (
                                        size, o1, e1, " and third" if third else "", ne, "" if q else " / by the node (3007)")))
    return out
