"""C11 - watchdog: idle sends one DWR, DWA restores ready, silence closes the connection."""
from engine import hx
from harness import bench as B
from harness.bench import WORLD, drain

PROPERTY = "C11"
P = {}
FUNCTIONS_ENCODED = ["Node._check_timers", "Node.send_dwr", "Node.receive_dwa", "Node.receive_dwr", "Node._receive_message",
                     "PeerConnection.reset_last_dwr/reset_last_dwa/reset_last_read", "PeerConnection.last_read_since/dwa_wait_time/is_waiting_for_dwa",
                     "PeerConnection.work_read_queue (traffic resets the idle timer)", "Node.close_connection_socket/remove_peer_connection"]
from engine.env import STUBS  # noqa: E402
ASSUMPTIONS = ["virtual integer clock, 1 s resolution, non-decreasing (as the property states)",
               "a timeout value of 0/None at peer level means 'unset' (the node default applies)"]
BOUNDS = {"quick": "one-step obligations: every clock offset in [0, 700] s, node idle/dwa timeouts 1..60, per-peer idle/dwa 0..60 (0 = unset); timelines of 3 timer checks with symbolic gaps 0..70 s and symbolic traffic kind per step",
          "thorough": "timelines of 4 timer checks"}
OUTSIDE = ["horizons beyond 4 timer checks (the one-step obligations quantify over every pre-state of the two timestamps: the inductive step)"]


def _ready(direction_out, peer_idle, peer_dwa, node_idle, node_dwa):
    b = B.Bench(n_peers=1)
    n, p = b.node, b.peers[0]
    n.idle_timeout, n.dwa_timeout = node_idle, node_dwa
    p.idle_timeout = peer_idle if peer_idle else None
    p.dwa_timeout = peer_dwa if peer_dwa else None
    if direction_out:
        c = b.dial(p, "ok")
        drain(c)
        b.inject(c, B.cea(p.node_name))
    else:
        c, s = b.make_ready(p)
    drain(c)
    if P.get("second"):
        # a second established connection of the same peer (accepted while the first is registered): the peer's timers apply to it too
        c2, s2 = b.accept("10.0.1.9")
        b.inject(c2, B.cer(p.node_name, hbh=21, e2e=22))
        drain(c2)
        c = c2
    return b, n, p, c


def idle_step(out: bool, d: int, node_idle: int, peer_idle: int, node_dwa: int, peer_dwa: int, w: int) -> bool:
    """
    pre: 0 <= d <= 700 and 1 <= node_idle <= 60 and 0 <= peer_idle <= 60 and 1 <= node_dwa <= 60 and 0 <= peer_dwa <= 60 and 0 <= w <= 700
    post: _
    """
    hx.begin()
    inputs = (out, d, node_idle, peer_idle, node_dwa, peer_dwa, w)
    try:
        b, n, p, c = _ready(out, peer_idle, peer_dwa, node_idle, node_dwa)
        ready0 = c.state == B.PEER_READY
        t0 = WORLD.now
        WORLD.now = t0 + d
        n._check_timers(c)
        o1 = B.summarize(drain(c))
        s1 = c.state
        n._check_timers(c)                         # a second check right away must not send a second DWR
        o1b = B.summarize(drain(c))
        WORLD.now = t0 + d + w
        n._check_timers(c)
        o2 = B.summarize(drain(c))
        s2 = c.state
        obs = (ready0, [(r, cc) for (r, cc, *_x) in o1], s1, len(o1b), len(o2), s2, p.disconnect_reason, p.connection is None,
               c.ident in n.connections)
        if P.get("second"):
            obs = obs[:6] + (None, None) + obs[8:]         # the peer keeps its registered (first) connection
    except Exception as e:
        return hx.fail(inputs, "raised " + type(e).__name__)
    if P.get("second"):
        return hx.check(inputs, obs, _idle_exp(d, w, peer_idle if peer_idle else node_idle, peer_dwa if peer_dwa else node_dwa, True),
                        "second connection of a peer: idle -> exactly one DWR; DWA timeout -> closed; per-peer timers first")
    eff_idle = peer_idle if peer_idle else node_idle
    eff_dwa = peer_dwa if peer_dwa else node_dwa
    if d > eff_idle:
        if w > eff_dwa:
            exp = (True, [(True, 280)], B.PEER_READY_WAITING_DWA, 0, 0, B.PEER_CLOSED, B.DISCONNECT_REASON_DWA_TIMEOUT, True, False)
        else:
            exp = (True, [(True, 280)], B.PEER_READY_WAITING_DWA, 0, 0, B.PEER_READY_WAITING_DWA, None, False, True)
    else:
        # no DWR at the first check; at the second instant the same rule applies afresh
        if d + w > eff_idle:
            exp = (True, [], B.PEER_READY, 0, 1, B.PEER_READY_WAITING_DWA, None, False, True)
        else:
            exp = (True, [], B.PEER_READY, 0, 0, B.PEER_READY, None, False, True)
    return hx.check(inputs, obs, exp, "idle -> exactly one DWR; silence beyond the DWA timeout -> closed with the watchdog reason; per-peer timers first")


def _idle_exp(d, w, eff_idle, eff_dwa, second):
    if d > eff_idle:
        if w > eff_dwa:
            return (True, [(True, 280)], B.PEER_READY_WAITING_DWA, 0, 0, B.PEER_CLOSED, None, None, False)
        return (True, [(True, 280)], B.PEER_READY_WAITING_DWA, 0, 0, B.PEER_READY_WAITING_DWA, None, None, True)
    if d + w > eff_idle:
        return (True, [], B.PEER_READY, 0, 1, B.PEER_READY_WAITING_DWA, None, None, True)
    return (True, [], B.PEER_READY, 0, 0, B.PEER_READY, None, None, True)


def dwa_restores(out: bool, d: int, d2: int, node_idle: int) -> bool:
    """
    pre: 0 <= d <= 200 and 0 <= d2 <= 200 and 1 <= node_idle <= 60 and d > node_idle
    post: _
    """
    hx.begin()
    inputs = (out, d, d2, node_idle)
    try:
        b, n, p, c = _ready(out, 0, 0, node_idle, 30)
        t0 = WORLD.now
        WORLD.now = t0 + d
        n._check_timers(c)
        sent = drain(c)
        waiting = c.state == B.PEER_READY_WAITING_DWA
        req = sent[0]
        WORLD.now = t0 + d + d2
        # the DWA arrives as bytes: the read worker resets the idle timer, the node handles the answer
        c.add_in_bytes(B.dwa(p.node_name, req.header.hop_by_hop_identifier, req.header.end_to_end_identifier).as_bytes())
        WORLD.pump_conn(c)
        s_after = c.state
        n._check_timers(c)
        o = B.summarize(drain(c))
        obs = (waiting, len(sent), s_after, c.is_waiting_for_dwa, len(o), c.state)
    except Exception as e:
        return hx.fail(inputs, "raised " + type(e).__name__)
    return hx.check(inputs, obs, (True, 1, B.PEER_READY, False, 0, B.PEER_READY), "a DWA returns the connection to ready; traffic just arrived, so no new DWR")


def dwr_answered(out: bool, waiting: bool, ih: int, ie: int, state_id: int) -> bool:
    """
    pre: 0 <= ih < 5 and 0 <= ie < 5 and 0 <= state_id <= 0xffffffff
    post: _
    """
    hx.begin()
    inputs = (out, waiting, ih, ie, state_id)
    # ids are used as dictionary keys by the node (realised): drawn from a pool (data-independence assumption)
    hbh, e2e = B.ID_POOL[hx.concretize_range(ih, 0, 5)], B.ID_POOL[hx.concretize_range(ie, 0, 5)]
    try:
        b, n, p, c = _ready(out, 0, 0, 30, 30)
        n.state_id = state_id
        if waiting:
            n.send_dwr(c)
            drain(c)
        s0 = c.state
        b.inject(c, B.dwr(p.node_name, hbh, e2e))
        o = drain(c)
        a = o[0] if o else None
        obs = (s0, len(o), B.summarize(o), getattr(a, "origin_state_id", None), getattr(a, "origin_host", None), c.state)
    except Exception as e:
        return hx.fail(inputs, "raised " + type(e).__name__)
    st = B.PEER_READY_WAITING_DWA if waiting else B.PEER_READY
    exp = (st, 1, [(False, 280, 0, hbh, e2e, 2001)], state_id, B.NODE_HOST.encode(), st)
    return hx.check(inputs, obs, exp, "a DWR is answered 2001 with the node's Origin-State-Id in either ready sub-state")


def reason_after_history(prev: int, back: int) -> bool:
    """
    pre: 0 <= prev <= 4 and 0 <= back <= 1
    post: _
    """
    hx.begin()
    # the peer has a history: an earlier connection ended (peer gone / socket error / after a DPR / node-initiated close) or none
    # did; it is connected again (inbound with a CER, or dialled), goes idle, gets its DWR, stays silent: the connection is
    # closed and the reason recorded for the peer is the watchdog timeout - not whatever the earlier loss left behind
    pv = ["none", "gone", "error", "dpr", "node_close"][hx.concretize_range(prev, 0, 5)]
    outbound = bool(hx.concretize_range(back, 0, 2))
    inputs = (prev, back)
    from harness import hist as H
    try:
        with hx.untraced():
            h = H.Hist(init="fresh", persistent=False)
            n, p = h.n, h.p
            if pv != "none":
                h.ev_accept()
                h.ev_cer(B.PEER_HOSTS[0], [4])
                if pv == "gone":
                    h.ev_gone(h.newest())
                elif pv == "error":
                    h.ev_err(h.newest())
                elif pv == "dpr":
                    h.ev_dpr()
                    h.ev_gone(h.newest())
                else:
                    h.ev_close()
            if outbound:
                h.ev_dial("ok")
                h.ev_cea(2001)
            else:
                h.ev_accept()
                h.ev_cer(B.PEER_HOSTS[0], [4])
            c = h.newest()
            ready = c is not None and c.state == B.PEER_READY
            WORLD.advance(n, n.idle_timeout + 1)           # idle: the DWR goes out
            waiting = c is not None and c.state == B.PEER_READY_WAITING_DWA
            WORLD.advance(n, n.dwa_timeout + 1)            # silence: closed by the watchdog
            obs = (ready, waiting, c is not None and c.ident in n.connections, p.disconnect_reason)
    except Exception as e:
        return hx.fail(inputs, "raised %s: %s" % (type(e).__name__, str(e)[:80]))
    return hx.check(inputs, obs, (True, True, False, B.DISCONNECT_REASON_DWA_TIMEOUT), "silence after the DWR closes the connection with the watchdog-timeout reason, whatever the peer's earlier history")


def stopping_silent(d: int) -> bool:
    """
    pre: 0 <= d <= 700
    post: _
    """
    hx.begin()
    try:
        b, n, p, c = _ready(False, 0, 0, 30, 4)
        n._stopping = True
        WORLD.now += d
        n._check_timers(c)
        obs = (len(drain(c)), c.state)
    except Exception as e:
        return hx.fail((d,), "raised " + type(e).__name__)
    return hx.check((d,), obs, (0, B.PEER_READY), "no watchdog while the node is stopping")


def timeline(g1: int, g2: int, g3: int, g4: int, k1: int, k2: int, k3: int, k4: int, idle: int, dwa_t: int) -> bool:
    """
    pre: all(0 <= g <= 70 for g in (g1, g2, g3, g4)) and all(0 <= k <= 2 for k in (k1, k2, k3, k4))
    pre: 1 <= idle <= 60 and 1 <= dwa_t <= 60
    post: _
    """
    hx.begin()
    steps = P["steps"]
    gaps, kinds = (g1, g2, g3, g4)[:steps], (k1, k2, k3, k4)[:steps]
    inputs = (g1, g2, g3, g4, k1, k2, k3, k4, idle, dwa_t)
    try:
        b, n, p, c = _ready(False, 0, 0, idle, dwa_t)
        # reference model from the property text
        last_read, last_dwr, state = WORLD.now, 0, "ready"
        obs, exp = [], []
        for g, k in zip(gaps, kinds):
            WORLD.now += g
            k = hx.concretize_range(k, 0, 3)
            if state != "closed" and k:
                # traffic: 1 = a DWA, 2 = an application answer nobody waits for
                msg = B.dwa(p.node_name, 5, 6) if k == 1 else B.cca(p.node_name, 77, 78)
                c.add_in_bytes(msg.as_bytes())
                WORLD.pump_conn(c)
                last_read = WORLD.now
                if k == 1 and state == "waiting":
                    state, last_dwr = "ready", 0
                elif k == 1:
                    last_dwr = 0
            n._check_timers(c)
            sent = B.summarize(drain(c))
            e_sent = 0
            if state == "waiting":
                if WORLD.now - last_dwr > dwa_t:
                    state = "closed"
            elif state == "ready":
                if WORLD.now - last_read > idle:
                    e_sent, state, last_dwr = 1, "waiting", WORLD.now
            obs.append((len(sent), [x[:2] for x in sent], {B.PEER_READY: "ready", B.PEER_READY_WAITING_DWA: "waiting", B.PEER_CLOSED: "closed"}.get(c.state, "other")))
            exp.append((e_sent, [(True, 280)] * e_sent, state))
    except Exception as e:
        return hx.fail(inputs, "raised " + type(e).__name__)
    return hx.check(inputs, obs, exp, "timeline differs from the watchdog specification")


def specs(tier, seed, carve):
    q = tier == "quick"
    out = [
        dict(id="idle_step", fn="idle_step", params={}, timeout=240, bound="all d, w in [0,700]; node idle/dwa 1..60; peer idle/dwa 0..60; inbound and outbound"),
        dict(id="idle_step/second_conn", fn="idle_step", params={"second": True}, timeout=240, bound="as idle_step, on a second established connection of the same peer (the first stays registered)"),
        dict(id="dwa_restores", fn="dwa_restores", params={}, timeout=120, bound="all d, d2 in [0,200], idle 1..60"),
        dict(id="dwr_answered", fn="dwr_answered", params={}, timeout=120, bound="ids from a 5-element pool (equal/distinct/boundary), all 32-bit Origin-State-Id values; both ready sub-states; inbound and outbound"),
        dict(id="stopping_silent", fn="stopping_silent", params={}, timeout=60, bound="all d in [0,700]"),
        dict(id="reason_after_history", fn="reason_after_history", params={}, timeout=120,
             bound="the peer's earlier connection ended by {nothing, peer gone, socket error, DPR, node close}; connected again inbound / dialled; idle, DWR, silence"),
    ]
    for steps in ((2, 3) if q else (2, 3, 4)):
        out.append(dict(id="timeline/%d" % steps, fn="timeline", params={"steps": steps}, timeout=300 if q else 1500,
                        bound="%d timer checks, symbolic gaps 0..70 s, traffic kind per step in {none, DWA, other}, idle/dwa timeouts 1..60" % steps))
    return out


# ---------------------------------------------------------------------------------------------------------------------
# wire-level histories with this property's monitor (harness/uni.py): bytes in, bytes out, reference model of the far ends
from typing import List as _List  # noqa: E402
from harness import uni as U  # noqa: E402


def uni_history(ev: _List[int]) -> bool:
    """
    pre: len(ev) == P["depth"] and all(0 <= e < len(U.EVENTS) for e in ev)
    pre: all(ev[i] == P["prefix"][i] for i in range(len(P["prefix"])))
    post: _
    """
    return U.history_body(ev, P)


_own_specs = specs


def specs(tier, seed, carve):  # noqa: F811
    return _own_specs(tier, seed, carve) + U.specs(PROPERTY, tier, seed)


FUNCTIONS_ENCODED = list(FUNCTIONS_ENCODED) + U.FUNCTIONS
BOUNDS = {k: v + "; " + U.BOUNDS[k] for k, v in BOUNDS.items()}
OUTSIDE = list(OUTSIDE) + U.OUTSIDE
