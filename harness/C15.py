"""C15 - outbound bytes = queued messages concatenated FIFO, intact, exactly once."""
import errno
import socket as real_socket
from typing import List
from engine import hx, coop
from engine.env import STUBS, WORLD  # noqa: F401
from harness import bench as B
from diameter.node.node import Node
from diameter.node.peer import PeerConnection
from diameter.message import Message
from diameter.message.avp import Avp

PROPERTY = "C15"
P = {}
FUNCTIONS_ENCODED = ["PeerConnection.work_write_queue (cooperative transform)", "PeerConnection.remove_out_bytes (cooperative transform)",
                     "Node._handle_connections (cooperative transform; send branch, soft failures, interrupt pipe)", "PeerConnection.add_out_msg / demand_attention / write_buffer",
                     "Message.as_bytes"]
ASSUMPTIONS = ["threads are their body functions under a cooperative scheduler; preemption points before every statement that mentions state shared between the threads and inside read-modify-write assignments",
               "threading.Lock -> cooperative lock; Queue -> cooperative FIFO; select -> cooperative wait that reports the socket writable while the buffer is non-empty, the interrupt pipe after demand_attention and a timeout otherwise",
               "send() accepts 1..n bytes or fails once with a soft errno, as scripted by solver-chosen values"]
BOUNDS = {"quick": "1 producer x 2 messages and 2 producers x 1 message (plus one unencodable message: encoder raises / 16 MiB message), first send accepts a symbolic 1..n bytes or fails softly, every placement of <= 2 preemptions with symbolic target thread",
          "thorough": "3 messages; 1 preemption with every first-send size 1..48; every placement of 2 preemptions with the first send accepting everything or 21 bytes"}
OUTSIDE = ["4..6 messages", "3 producers", "several independent partial writes", "bytecode-level preemption", "hard socket errors (C14)"]

REG = {}
SHARED = ("_write_buffer", "write_buffer", "write_lock", "_write_msg_queue", "add_out_msg", "remove_out_bytes", "demand_attention", "send", "select", "is_stopped")
WQ, WQ_SRC = coop.coop(PeerConnection.work_write_queue, waiters=("get",), registry=REG, shared=SHARED)
ROB, _ROB_SRC = coop.coop(PeerConnection.remove_out_bytes, registry=REG, shared=SHARED)
HC, HC_SRC = coop.coop(Node._handle_connections, callees=("remove_out_bytes",), waiters=("select", "send"), registry=REG, shared=SHARED)


class EndLoop(BaseException):
    pass


class SendSock:
    def __init__(self, plan):
        self.plan = list(plan)
        self.log = b""
        self._fn = 77
        self.closed = False
        self.inq = []
        self.backlog = []
        self._pinned = None

    def fileno(self):
        return self._fn

    def coop_send(self, data):
        """socket.send as the C implementation behaves: it pins its argument's buffer and releases the GIL while the kernel
        copies - other threads run in between (one scheduling point), and a resizable buffer cannot be resized meanwhile"""
        if self._pinned is None:
            try:
                self._pinned = memoryview(data)
            except TypeError:
                self._pinned = data
            # default: an ordinary preemption point; `slow_send`: the other threads do run while the kernel copies
            return False, (None if P.get("slow_send") else "runnable")
        mv, self._pinned = self._pinned, None
        try:
            return True, self.send(bytes(mv))
        except Exception as e:
            return True, e
        finally:
            if isinstance(mv, memoryview):
                mv.release()

    def close(self):
        self.closed = True

    def setsockopt(self, *a):
        pass

    def send(self, data):
        n = len(data)
        if not self.plan:
            k = n
        else:
            k = self.plan.pop(0)
            if k < 0:
                raise real_socket.error(errno.EAGAIN if k == -1 else (errno.EINTR if k == -2 else errno.ENOBUFS), "soft")
            if k == 0 or k > n:
                k = n
        self.log = self.log + bytes(data[:k])
        return k


class VSelect:
    def __init__(self, conn, sock, others=()):
        self.conn = conn
        self.sock = sock
        self.finish = False
        self.others = list(others)        # (conn, sock) pairs that are simply writable while they have bytes

    def coop_select(self, r, w, x, t):
        ww = []
        if self.sock in w and len(self.conn.write_buffer) > 0:
            ww.append(self.sock)
        for (oc, osock) in self.others:
            if osock in w and len(oc.write_buffer) > 0:
                ww.append(osock)
        if ww:
            return True, ([], ww, [])
        if WORLD.pipe:
            return True, ([r[0]], [], [])            # interrupt pipe readable (demand_attention)
        if self.finish and len(self.conn.write_buffer) == 0 and all(len(oc.write_buffer) == 0 for (oc, _s) in self.others):
            return True, EndLoop()
        if self.finish:
            return True, ([], [], [])                # wakeup_interval timeout
        return False, None


class TH:
    def __init__(self):
        self.stopped = False

    @property
    def is_stopped(self):
        return self.stopped


class BadMessage(Message):
    def as_bytes(self):
        raise ValueError("cannot be encoded")


HUGE = b"\x5a" * (1 << 24)          # one AVP payload of 16 MiB: every AVP valid, the message exceeds the 24-bit length field


def _msgs(kinds):
    out = []
    for i, k in enumerate(kinds):
        m = BadMessage() if k == "bad" else Message()
        m.header.hop_by_hop_identifier = 0x0a0b0c00 + i
        m.header.command_code = 1000 + i
        # unencodable for real, each failing with another exception type inside the library's own encoder
        if k == "bad_attr":
            m.append_avp(None)                       # AttributeError in Message.as_bytes
        if k == "bad_type":
            m.header.version = None                  # TypeError in MessageHeader.as_packed
        if k == "bad_conv":
            m.header.application_id = 1 << 40         # ConversionError (struct range)
        if k == "huge":
            m.append_avp(Avp(0xf0000002, 0, HUGE))
        if k == "big":
            m.append_avp(Avp(0xf0000004, 0, bytes(range(256)) * 400))        # a legal long message: ~100 KB
        if k == "avp":
            m.append_avp(Avp(0xf0000001, 0, bytes([0x30 + i]) * 3))
        out.append(m)
    return out


def _enc_or_nothing(m):
    """reference: the encoding of a message, or nothing when the library's encoder refuses it (whatever it raises)"""
    if isinstance(m, BadMessage) or any(a is None or len(a.payload) >= (1 << 24) - 32 for a in m.avps):
        return b""
    try:
        return m.as_bytes()
    except Exception:
        return b""


def _compact(data):
    """long byte strings (the 16 MiB scenario) are compared by length, both ends and a checksum"""
    if len(data) <= 4096:
        return data
    import zlib
    return ("long", len(data), data[:64], data[-64:], zlib.crc32(data))


def fifo(k1: int, sched: List[int], tgt: List[int]) -> bool:
    """
    pre: -3 <= k1 <= 48 and (P["ks"] is None or k1 in P["ks"]) and len(sched) == P["slots"] and len(tgt) == P["slots"]
    pre: all(0 <= s < P["maxstep"] for s in sched) and all(sched[i] < sched[i + 1] for i in range(len(sched) - 1)) and all(0 <= x <= 2 for x in tgt)
    pre: len(sched) == 0 or P.get("lo", 0) <= sched[0] < P.get("hi", P["maxstep"])
    post: _
    """
    return fifo_body(k1, sched, tgt)


def fifo_body(k1, sched, tgt):
    # no contract of its own: CrossHair enforces the contracts of *called* functions and silently drops a path on which a
    # callee's postcondition fails - C07.wire_once calls this body, not `fifo`
    hx.begin()
    inputs = (k1, sched, tgt)
    kv = hx.concretize_range(k1, -3, 49)
    if P.get("kmap"):
        kv = P["kmap"][kv % len(P["kmap"])]          # long messages: the first send accepts this many bytes
    # byte count and schedule are the only inputs: fix them (solver-decided bisection branches), the threads then run natively
    sched = [hx.concretize_range(x, 0, P["maxstep"]) for x in sched]
    tgt = [hx.concretize_range(x, 0, 3) for x in tgt]
    try:
        # all inputs are fixed above: the rest of the path runs natively
        with hx.untraced():
            b = B.Bench(n_peers=1)
            n = b.node
            c = PeerConnection("10.0.1.1", 1, B.PEER_RECV, interrupt_fileno=n.interrupt_write)
            c.state = B.PEER_READY
            c.write_lock = coop.CoopLock()
            q = coop.CoopQueue()
            c._write_msg_queue = q
            put_order = []
            real_put = q.put

            def put(x):
                put_order.append(x)
                real_put(x)
            q.put = put
            s = SendSock([kv])
            n._add_peer_connection(c, s, B.PEER_TRANSPORT_TCP)
            others = []
            c2 = s2 = None
            second = b""
            if P.get("second"):
                # a second connection with bytes already buffered; its first send fails softly in the same select round
                c2 = PeerConnection("10.0.1.2", 2, B.PEER_RECV, interrupt_fileno=n.interrupt_write)
                c2.state = B.PEER_READY
                c2.write_lock = coop.CoopLock()
                s2 = SendSock([-1])
                s2._fn = 78
                n._add_peer_connection(c2, s2, B.PEER_TRANSPORT_TCP)
                second = _msgs(["avp", "plain"])[0].as_bytes() + _msgs(["plain"])[0].as_bytes()
                c2._write_buffer = type(c2._write_buffer)(second)          # (whatever buffer type the connection uses)
                others.append((c2, s2))
            WORLD.pipe.clear()
            vs = VSelect(c, s, others)
            HC.__globals__["select"] = vs
            th_io = TH()

            class W(TH):
                @property
                def is_stopped(self_):
                    return q.closed and q.empty()
            th_w = W()
            groups = P["producers"]           # list of lists of message kinds, one list per producer
            msgs = [_msgs(g) for g in groups]
            for gi, g in enumerate(msgs):
                for m in g:
                    m.header.end_to_end_identifier = gi
            done = [False] * len(groups)

            def producer(gi):
                for m in msgs[gi]:
                    yield 0
                    c.add_out_msg(m)
                yield 0
                done[gi] = True
                if all(done):
                    q.closed = True

            def writer():
                try:
                    yield from WQ(c, th_w)
                finally:
                    vs.finish = True

            def io():
                try:
                    yield from HC(n, th_io)
                except EndLoop:
                    return
            used = [False] * len(sched)

            def choose(step, nrunnable):
                for i in range(len(sched)):
                    if not used[i] and sched[i] == step:
                        used[i] = True
                        return 1 + tgt[i]
                return 0
            threads = [producer(gi) for gi in range(len(groups))] + [writer(), io()]
            coop.run_choices(threads, choose, len(sched), max_steps=1500)
            expected = b"".join(_enc_or_nothing(m) for m in put_order)
            obs = (_compact(s.log), len(c.write_buffer), c.state, s2.log if s2 is not None else b"")
    except Exception as e:
        return hx.fail(inputs, "raised %s: %s" % (type(e).__name__, str(e)[:100]))
    return hx.check(inputs, obs, (_compact(expected), 0, B.PEER_READY, second), "bytes handed to the transport != FIFO concatenation of the encodable queued messages, each once (per connection)")


def specs(tier, seed, carve):
    q = tier == "quick"
    out = []
    scen = {"1x2": [["plain", "avp"]], "2x1": [["plain"], ["avp"]], "1x3bad": [["plain", "bad", "avp"]], "1x3huge": [["plain", "huge", "avp"]],
            "1x3bad_attr": [["plain", "bad_attr", "avp"]], "1x3bad_type": [["plain", "bad_type", "avp"]], "1x3bad_conv": [["plain", "bad_conv", "avp"]]}
    if not q:
        scen["2x2bad"] = [["plain", "bad"], ["avp", "plain"]]
        scen["1x3"] = [["plain", "avp", "plain"]]
    out.append(dict(id="fifo/1x2+second/p1", fn="fifo", params={"producers": [["plain", "avp"]], "slots": 1, "maxstep": 90, "ks": [-1, 0, 1, 20, 21], "second": True}, timeout=1500,
                    bound="as 1x2, plus a second connection with buffered bytes that is writable in the same select rounds and whose first send fails softly; 1 preemption"))
    out.append(dict(id="fifo/1x2/p1/slow_send", fn="fifo", params={"producers": [["plain", "avp"]], "slots": 1, "maxstep": 90, "ks": [-1, 0, 1, 20, 21], "slow_send": True, "lo": 0, "hi": 90}, timeout=1500,
                    bound="as fifo/1x2/p1, but every send lets the other threads run before it returns (the GIL is released while the kernel copies)"))
    kmap = [65535, 65536, 65537, 70000, 102400, 1]
    out.append(dict(id="fifo/1x3big/p1", fn="fifo", params={"producers": [["plain", "big", "avp"]], "slots": 1, "maxstep": 90, "ks": list(range(len(kmap))), "kmap": kmap, "lo": 0, "hi": 90}, timeout=1500,
                    bound="a 100 KB message between two short ones; the first send accepts 65535 / 65536 / 65537 / 70000 / 102400 / 1 bytes, the rest is written in full; 1 preemption"))
    for name, groups in scen.items():
        for slots in ((1,) if q else (1, 2)):
            ks = [-1, -3, 0, 1, 20, 21] if (q and slots == 1) else (None if slots == 1 else [0, 21])
            shards = [(0, 90)] if slots == 1 else [(0, 12), (12, 26), (26, 45), (45, 90)]
            for (lo, hi) in shards:
                out.append(dict(id="fifo/%s/p%d%s" % (name, slots, "" if slots == 1 else "/%d" % lo), fn="fifo",
                                params={"producers": groups, "slots": slots, "maxstep": 90, "ks": ks, "lo": lo, "hi": hi}, timeout=1500 if q else 8000,
                                bound="producers %r; first send accepts k bytes (%s) or fails with EAGAIN/EINTR/ENOBUFS; every placement of %d preemption(s) over the shared-state statements (first one in steps %d..%d) with symbolic target thread" % (
                                    groups, "k in {1, 20, 21, all}" if ks and len(ks) > 2 else ("k in {all, 21}" if ks else "every k in 1..48 / all"), slots, lo, hi - 1)))
    return out


# ---------------------------------------------------------------------------------------------------------------------
# wire-level histories with this property's monitor (harness/uni.py): bytes in, bytes out, reference model of the far ends
from typing import List as _List  # noqa: E402
from harness import uni as U  # noqa: E402


def uni_history(ev: _List[int]) -> bool:
    """
    pre: len(ev) == P["depth"] and all(0 <= e < len(U.EVENTS) for e in ev)
    pre: all(ev[i] == P["prefix"][i] for i in range(len(P["prefix"])))
    post: _
    """
    return U.history_body(ev, P)


_own_specs = specs


def specs(tier, seed, carve):  # noqa: F811
    return _own_specs(tier, seed, carve) + U.specs(PROPERTY, tier, seed)


FUNCTIONS_ENCODED = list(FUNCTIONS_ENCODED) + U.FUNCTIONS
BOUNDS = {k: v + "; " + U.BOUNDS[k] for k, v in BOUNDS.items()}
OUTSIDE = list(OUTSIDE) + U.OUTSIDE
