"""C07 - each transmitted answer answers exactly one received request, never an answer."""
from typing import List
from engine import hx
from engine.env import STUBS, WORLD  # noqa: F401
from harness import bench as B
from harness.bench import drain
from harness import C15

PROPERTY = "C07"
P = {}
FUNCTIONS_ENCODED = ["Node._receive_message (dispatch, T-flag branch, AVP validation branch, exception handler)", "Node._generate_answer", "Message.to_answer",
                     "Node.receive_cer/receive_cea/receive_dwr/receive_dwa/receive_dpr/receive_dpa", "Node._receive_app_request/_receive_app_answer",
                     "Node.send_message/_record_answer", "Node.route_answer", "Application.send_answer/generate_answer/receive_answer",
                     "validate_message_avps", "PeerConnection.__dispatch_message"]
ASSUMPTIONS = ["connection states are constructed directly (over-approximation of the reachable pre-states)", "hop-by-hop ids of in-flight requests are connection-unique (as the property states)"]
BOUNDS = {"quick": "one step: 7 connection states x 18 message kinds x 5 defect classes x handler raises or not; every history of depth 2 over 17 events x 3 defect classes, depth 3 from 12 and depth 4 from 2 seeded first events over 8 core kinds (native after concretisation); the byte stream of 3 requests cut at every position; two queued answers on the write path with 1 preemption",
          "thorough": "every history of depth 3 over the full alphabet, depth 4 from every first event over the core kinds"}
OUTSIDE = ["histories deeper than 4", "3 connections"]

PEER = B.PEER_HOSTS[0]
STATES = [B.PEER_CONNECTING, B.PEER_CONNECTED, B.PEER_READY, B.PEER_READY_WAITING_DWA, B.PEER_DISCONNECTING, B.PEER_CLOSING, B.PEER_CLOSED]
KINDS = ["ccr_sync_rc", "ccr_sync_no_rc", "cer", "dwr", "dpr", "ccr", "ccr_unknown_app", "ccr_wrong_realm", "ccr_missing_avp", "unknown_cmd_req",
         "cea", "dwa", "dpa", "cca", "unknown_cmd_ans"]
# one_step only: requests of a command without python class, decoded from the wire (repeated AVPs become list attributes)
STEP_KINDS = KINDS + ["undef_req_oh", "undef_req_2oh", "undef_req_2oh_sync"]
DEFECTS = ["none", "no_origin_host", "no_result_code", "no_avps", "t_flag"]


def mk(kind, hbh, e2e, defect="none"):
    if kind == "cer":
        m = B.cer(PEER, hbh=hbh, e2e=e2e)
    elif kind == "dwr":
        m = B.dwr(PEER, hbh, e2e)
    elif kind == "dpr":
        m = B.dpr(PEER, hbh, e2e)
    elif kind in ("ccr", "ccr_sync_rc", "ccr_sync_no_rc"):
        m = B.ccr(PEER, hbh, e2e)
    elif kind == "ccr_unknown_app":
        m = B.ccr(PEER, hbh, e2e, app=9)
    elif kind == "ccr_wrong_realm":
        m = B.ccr(PEER, hbh, e2e, realm="elsewhere.realm")
    elif kind == "ccr_missing_avp":
        m = B.ccr(PEER, hbh, e2e)
        m.cc_request_type = None
    elif kind == "cea":
        m = B.cea(PEER, hbh=hbh, e2e=e2e)
    elif kind == "dwa":
        m = B.dwa(PEER, hbh, e2e)
    elif kind == "dpa":
        m = B.dpa(PEER, hbh, e2e)
    elif kind == "cca":
        m = B.cca(PEER, hbh, e2e)
    elif kind in ("undef_req_oh", "undef_req_2oh", "undef_req_2oh_sync"):
        from diameter.message.avp import Avp
        from diameter.message import constants as K
        raw = B.Message()
        raw.header.command_code = 999
        raw.header.is_request = True
        raw.header.is_retransmit = defect == "t_flag"
        raw.header.hop_by_hop_identifier = hbh
        raw.header.end_to_end_identifier = e2e
        raw.header.application_id = 4
        if defect != "no_avps":
            if defect != "no_origin_host":
                raw.append_avp(Avp.new(K.AVP_ORIGIN_HOST, value=PEER.encode()))
                if kind != "undef_req_oh":
                    raw.append_avp(Avp.new(K.AVP_ORIGIN_HOST, value=b"second." + PEER.encode()))
            raw.append_avp(Avp.new(K.AVP_ORIGIN_REALM, value=B.REALM.encode()))
            raw.append_avp(Avp.new(K.AVP_DESTINATION_REALM, value=B.REALM.encode()))
        return B.Message.from_bytes(raw.as_bytes())
    else:
        m = B.Message()
        m.header.command_code = 999
        m.header.is_request = kind.endswith("req")
        m.header.hop_by_hop_identifier = hbh
        m.header.end_to_end_identifier = e2e
        m.header.application_id = 4
        return m
    if defect == "t_flag":
        m.header.is_retransmit = True
    elif defect == "no_origin_host":
        m.origin_host = None
    elif defect == "no_result_code" and hasattr(m, "result_code"):
        m.result_code = None
    elif defect == "no_avps":
        for d in m.avp_def:
            if getattr(m, d.attr_name, None) is not None:
                try:
                    setattr(m, d.attr_name, None)
                except Exception:
                    pass
    return m


def sig(m):
    h = m.header
    return (h.command_code, h.application_id, h.hop_by_hop_identifier, h.end_to_end_identifier)


def one_step(st: int, kind: int, defect: int, raises: bool, pend: bool) -> bool:
    """
    pre: st == P["st"] and 0 <= kind < len(STEP_KINDS) and 0 <= defect < len(DEFECTS)
    post: _
    """
    hx.begin()
    st_v = STATES[P["st"]]
    k = STEP_KINDS[hx.concretize_range(kind, 0, len(STEP_KINDS))]
    d = DEFECTS[hx.concretize_range(defect, 0, len(DEFECTS))]
    inputs = (st, kind, defect, raises, pend)
    try:
        b = B.Bench(n_peers=1, stats=True)
        n, p, app = b.node, b.peers[0], b.apps[0]
        c, s = b.make_ready(p)
        if pend:
            # a request with the very identifiers of the message under test (each side picks its identifiers independently) was
            # received earlier on this connection and is still with the application
            b.inject(c, mk("ccr", 71, 72))
            drain(c)
        app.raise_in_handler = bool(raises)              # (the unexpected-answer handler raises as well)
        app.sync_answer = {"ccr_sync_rc": "rc", "ccr_sync_no_rc": "no_rc", "undef_req_2oh_sync": "rc"}.get(k)
        if k == "cca":
            n._app_waiting_answer["71:72"] = app        # somebody once sent request 71/72: the answer goes to the application
        if raises:
            # an earlier request of this origin with the same end-to-end id has been answered (retransmission window)
            from collections import deque
            n._sent_answers[PEER] = deque([72], maxlen=n.retransmit_queue_size)
        c.state = st_v
        msg = mk(k, 71, 72, d)
        try:
            b.inject(c, msg)
            died = ""
        except Exception as e:
            died = type(e).__name__      # the reader thread would die: reported by C14; here only the answers matter
        out = drain(c)
    except Exception as e:
        return hx.fail(inputs, "raised " + type(e).__name__)
    answers = [m for m in out if not m.header.is_request]
    is_req = bool(msg.header.is_request)
    # (with `pend` the earlier request stays unanswered in this step: the application does not answer here)
    ok = (len(answers) <= (1 if is_req else 0)) and all(sig(a) == sig(msg) for a in answers)
    return hx.holds(inputs, ok, ([sig(a) for a in answers], is_req, died),
                    "an answer was transmitted that does not answer exactly one received, unanswered request (or reacts to an answer)")


EVENTS = KINDS + ["app_answers_oldest", "app_answers_oldest_again"]


def history(ev: List[int], df: List[int]) -> bool:
    """
    pre: len(ev) == P["depth"] and len(df) == P["depth"] and all(0 <= e < len(EVENTS) for e in ev) and all(0 <= d <= 2 for d in df)
    pre: ev[0] == P["first"] and df[0] == P["fd"]
    pre: P["alpha"] is None or all(ev[i] in P["alpha"] and df[i] in (0, 2) for i in range(1, len(ev)))
    post: _
    """
    hx.begin()
    # event kinds and defect classes are the only inputs: fix them (solver-decided bisection branches), then run natively
    steps = [(EVENTS[hx.concretize_range(e, 0, len(EVENTS))], ["none", "no_origin_host", "t_flag"][hx.concretize_range(df[i], 0, 3)]) for i, e in enumerate(ev)]
    bad = None
    trace = []
    try:
        with hx.untraced():
            b = B.Bench(n_peers=1, stats=True)
            n, p, app = b.node, b.peers[0], b.apps[0]
            c, s = b.make_ready(p)
            ledger = []           # signatures of requests received and not yet answered
            answered = []
            for i, (name, d) in enumerate(steps):
                trace.append((name, d))
                if name.startswith("app_answers"):
                    # the application answers the oldest delivered request (a second time: must not be transmitted)
                    pool = app.requests
                    if not pool:
                        continue
                    req = pool[0]
                    try:
                        app.send_answer(app.generate_answer(req, result_code=2001))
                    except B.NotRoutable:
                        pass
                    if name.endswith("again"):
                        try:
                            app.send_answer(app.generate_answer(req, result_code=2001))
                        except B.NotRoutable:
                            pass
                else:
                    # a T-flagged message repeats the end-to-end id of the last answered request
                    e2e = answered[-1][3] if (d == "t_flag" and answered) else 900 + i
                    msg = mk(name, 500 + i, e2e, d)
                    if msg.header.is_request:
                        ledger.append(sig(msg))
                    app.sync_answer = {"ccr_sync_rc": "rc", "ccr_sync_no_rc": "no_rc"}.get(name)
                    try:
                        b.inject(c, msg)
                    except Exception:
                        pass
                for m in drain(c):
                    if m.header.is_request:
                        continue
                    sg = sig(m)
                    if sg in ledger:
                        ledger.remove(sg)
                        answered.append(sg)
                    elif bad is None:
                        bad = (list(trace), sg, "second answer" if sg in answered else "answers nothing received")
                if bad is not None:
                    break
    except Exception as e:
        return hx.fail((ev, df), "raised " + type(e).__name__)
    if bad is not None:
        return hx.check((ev, df), bad, (bad[0], None, ""), "transmitted answer does not match a received, unanswered request")
    return hx.holds((ev, df), True, (trace,), "")


def stream_cut(a: int) -> bool:
    """
    pre: P["lo"] <= a < P["hi"]
    post: _
    """
    hx.begin()
    try:
        b = B.Bench(n_peers=1, stats=True)
        n, p, app = b.node, b.peers[0], b.apps[0]
        c, s = b.make_ready(p)
        msgs = [mk("dwr", 601, 901), mk("ccr_unknown_app", 602, 902), mk("dwr", 603, 903)]
        wire = b"".join(m.as_bytes() for m in msgs)
        k = hx.concretize_range(a, P["lo"], P["hi"])
        for chunk in (wire[:k], wire[k:]):
            if chunk:
                c.add_in_bytes(chunk)
                WORLD.pump_queue(c._read_buffer_queue, c.work_read_queue)        # the read worker only: answers stay on the message queue
        out = [sig(m) for m in drain(c) if not m.header.is_request]
    except Exception as e:
        return hx.fail((a,), "raised " + type(e).__name__)
    return hx.check((a,), (out,), ([sig(m) for m in msgs],), "requests arriving as a byte stream (cut anywhere): exactly one answer each, in order")


def wire_once(k1: int, sched: List[int], tgt: List[int]) -> bool:
    """
    pre: -3 <= k1 <= 48 and k1 in P["ks"] and len(sched) == P["slots"] and len(tgt) == P["slots"]
    pre: all(0 <= s < P["maxstep"] for s in sched) and all(sched[i] < sched[i + 1] for i in range(len(sched) - 1)) and all(0 <= x <= 2 for x in tgt)
    post: _
    """
    # "answers exactly one request" also on the wire: the write worker and the connection thread (C15's cooperative transform
    # of work_write_queue / _handle_connections) must hand every queued answer to the transport exactly once
    C15.P.clear()
    C15.P.update(P)
    return C15.fifo_body(k1, sched, tgt)


def specs(tier, seed, carve):
    q = tier == "quick"
    out = [dict(id="one_step/state%d" % st, fn="one_step", params={"st": st}, timeout=600, bound="connection state %#x x 18 message kinds (incl. requests of a command without python class, decoded from the wire, with one and with two Origin-Host AVPs) x 5 defect classes (incl. T flag with the id in the retransmission window) x request/answer handler raises or returns x a pending received request with the same identifiers or none" % STATES[st])
           for st in range(len(STATES))]
    out.append(dict(id="wire_once/1x2/p1", fn="wire_once", params={"producers": [["plain", "avp"]], "slots": 1, "maxstep": 90, "ks": [-1, 0, 1, 20, 21]}, timeout=1500,
                    bound="two queued answers, the first send accepting k bytes (k in {1, 20, 21, all}) or failing softly; every placement of 1 preemption between write worker and connection thread (harness/C15.fifo)"))
    nbytes = sum(len(mk(k_, 1, 1).as_bytes()) for k_ in ("dwr", "ccr_unknown_app", "dwr"))
    step = 24
    for lo in range(0, nbytes + 1, step):
        out.append(dict(id="stream_cut/%d" % lo, fn="stream_cut", params={"lo": lo, "hi": min(lo + step, nbytes + 1)}, timeout=600,
                        bound="3 requests (DWR, rejected CCR, DWR) as one byte stream through the real read worker, cut at every position in [%d, %d)" % (lo, min(lo + step, nbytes + 1))))
    import random
    rnd = random.Random(seed)
    firsts = [(e, d) for e in range(len(EVENTS)) for d in (0, 1, 2)]
    core = [EVENTS.index(x) for x in ("ccr_sync_no_rc", "dwr", "ccr", "ccr_missing_avp", "cea", "cca", "app_answers_oldest", "app_answers_oldest_again")]
    # histories run natively (~30 ms each): depth 3 from 12 and depth 4 from 2 seeded first events over the core alphabet already in the quick tier
    plan = [(2, firsts, None), (3, rnd.sample(firsts, 12), core), (4, rnd.sample(firsts, 2), core)] if q else [(2, firsts, None), (3, firsts, None), (4, firsts, core)]
    for depth, fs, alpha in plan:
        for (e, d) in fs:
            out.append(dict(id="history/%d/%s%s" % (depth, EVENTS[e], ["", "-noOH", "-T"][d]), fn="history", params={"depth": depth, "first": e, "fd": d, "alpha": alpha},
                            timeout=(200 if depth == 2 else 900) if depth < 4 else 6000,
                            bound="every sequence of %d events starting with %s%s over %s x {well-formed, no Origin-Host, T flag repeating the last answered end-to-end id} on a ready connection, with a ledger of unanswered requests" % (
                                depth, EVENTS[e], ["", " (no Origin-Host)", " (T flag)"][d], ("%d kinds" % len(EVENTS)) if alpha is None else "8 core kinds (later steps well-formed)")))
    return out


# ---------------------------------------------------------------------------------------------------------------------
# wire-level histories with this property's monitor (harness/uni.py): bytes in, bytes out, reference model of the far ends
from typing import List as _List  # noqa: E402
from harness import uni as U  # noqa: E402


def uni_history(ev: _List[int]) -> bool:
    """
    pre: len(ev) == P["depth"] and all(0 <= e < len(U.EVENTS) for e in ev)
    pre: all(ev[i] == P["prefix"][i] for i in range(len(P["prefix"])))
    post: _
    """
    return U.history_body(ev, P)


_own_specs = specs


def specs(tier, seed, carve):  # noqa: F811
    return _own_specs(tier, seed, carve) + U.specs(PROPERTY, tier, seed)


FUNCTIONS_ENCODED = list(FUNCTIONS_ENCODED) + U.FUNCTIONS
BOUNDS = {k: v + "; " + U.BOUNDS[k] for k, v in BOUNDS.items()}
OUTSIDE = list(OUTSIDE) + U.OUTSIDE
