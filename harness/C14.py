"""C14 - no fault or handler outcome stops service; workers survive, peers are served."""
import errno
import queue as _q
import socket as real_socket
from typing import List
from engine import hx
from engine.env import STUBS, WORLD, VSock  # noqa: F401
from harness import bench as B
from harness import hist as H

PROPERTY = "C14"
P = {}
FUNCTIONS_ENCODED = ["ThreadingApplication._wait_for_recv_msg / _wait_for_resp_msg / _process_recv_msg (thread bodies run as calls)",
                     "Application.send_answer/generate_answer", "Node.route_answer/send_message", "Node._handle_connections (recv/send error branches, zero read)",
                     "PeerConnection.work_read_queue / work_write_queue", "Node.receive_cer", "Node._receive_app_request",
                     "races (cooperative transform, harness/race.py): Node._handle_connections, close_connection_socket, remove_peer_connection, _receive_message, receive_cea, receive_cer, _assign_peer_connection, _flag_connection_as_ready; PeerConnection.__dispatch_message (real gate)",
                     "reader_survives: PeerConnection.__dispatch_message + Node._receive_message for 18 message kinds"]
ASSUMPTIONS = ["a thread is its body function: a body that ends by an exception IS the thread dying", "handler threads run when the harness schedules them (between the steps of the scenario)",
               "Queue.put(timeout=5) on the slot queue -> non-blocking (Full = the 5 s timeout)"]
BOUNDS = {"quick": "threading application: 1..3 requests with handler outcomes in {answer, None, raises, thread cannot be started} each, thread limit 0..2, connection loss before/after the handler for each request; I/O faults: {orderly close, reset, read error, write error} after every byte offset of the stream CER + request (native after concretisation); each followed by a reconnect-and-serve probe of limit+2 requests; reader survives one decoded message of 18 kinds x 5 defects x 7 states; races reader x I/O thread (error CEA then EOF / CER then EOF / CER of a stranger then EOF): every placement of 1 preemption, and of 2 preemptions with the first in steps 0..29 of <= 90",
          "thorough": "same, plus races with every placement of 2 preemptions"}
OUTSIDE = ["races: 3+ preemptions, preemption inside a statement that does not mention shared state, the write worker as a third thread, accept()/EMFILE and other resource-exhaustion faults of the listener", "3 consecutive faults", "'slow' handlers", "OS-level preemption inside worker loops"]
PEER = B.PEER_HOSTS[0]


class ScriptApp(B.ThreadingApplication):
    def __init__(self, outcomes, **k):
        super().__init__(4, is_auth_application=True, **k)
        self.outcomes = list(outcomes)
        self.handled = []
        op = self._thread_slots.put
        self._thread_slots.put = lambda item, block=True, timeout=None: op(item, False)

    def handle_request(self, message):
        self.handled.append(message.header.hop_by_hop_identifier)
        o = self.outcomes.pop(0) if self.outcomes else 0
        if o == 1:
            return None
        if o == 2:
            raise RuntimeError("handler failed")
        return self.generate_answer(message, result_code=2001)


def _pump_app(app):
    """run the two consumer bodies and the spawned handler threads until everything is quiet; an exception = a dead thread"""
    for _ in range(20):
        moved = False
        if not app._recv_msg_queue.empty():
            WORLD.pump_queue(app._recv_msg_queue, app._wait_for_recv_msg)
            moved = True
        while WORLD.spawned:
            t = WORLD.spawned.pop(0)
            t.run_now()
            moved = True
        if not app._resp_msg_queue.empty():
            WORLD.pump_queue(app._resp_msg_queue, app._wait_for_resp_msg)
            moved = True
        if not moved:
            return
    raise RuntimeError("application does not quiesce")


def _undef_req(i):
    """a request of a command without python class, decoded from the wire, carrying no Session-Id"""
    from diameter.message.avp import Avp
    from diameter.message import constants as K
    raw = B.Message()
    raw.header.command_code = 5000
    raw.header.is_request = True
    raw.header.application_id = 4
    raw.header.hop_by_hop_identifier = i
    raw.header.end_to_end_identifier = i
    raw.append_avp(Avp.new(K.AVP_ORIGIN_HOST, value=PEER.encode()))
    raw.append_avp(Avp.new(K.AVP_ORIGIN_REALM, value=B.REALM.encode()))
    raw.append_avp(Avp.new(K.AVP_DESTINATION_REALM, value=B.REALM.encode()))
    return B.Message.from_bytes(raw.as_bytes())


def _mk(limit, outcomes):
    b = B.Bench(n_peers=1, apps=())
    app = ScriptApp(outcomes, max_threads=limit)
    b.node.add_application(app, b.peers)
    b.apps.append(app)
    return b, app


def _probe(b, app, limit, tag):
    """a peer that connects afterwards completes its CER/CEA and gets limit+2 requests delivered and answered"""
    n, p = b.node, b.peers[0]
    for c0 in list(n.connections.values()):
        n.close_connection_socket(c0, B.DISCONNECT_REASON_UNKNOWN)
    c, s = b.accept()
    b.inject(c, B.cer(PEER, hbh=9001, e2e=9001))
    out = B.summarize(B.drain(c))
    if [(x[1], x[5]) for x in out] != [(257, 2001)]:
        return "%s: probe CER answered %r" % (tag, out)
    app.outcomes = []
    for i in range(limit + 2):
        before = len(app.handled)
        b.inject(c, B.ccr(PEER, 9100 + i, 9100 + i))
        _pump_app(app)
        out = B.summarize(B.drain(c))
        if len(app.handled) != before + 1:
            return "%s: probe request %d not delivered to the handler (answers %r)" % (tag, i, out)
        if [(x[3], x[5]) for x in out] != [(9100 + i, 2001)]:
            return "%s: probe request %d answered %r" % (tag, i, out)
    if app._thread_slots.qsize() != 0:
        return "%s: %d thread slots still taken at quiescence" % (tag, app._thread_slots.qsize())
    return ""


# ----------------------------------------------------------------------------- A. threading application
def threading_app(limit: int, outs: List[int], lost: List[int]) -> bool:
    """
    pre: limit == P["limit"] and len(outs) == P["nreq"] and len(lost) == P["nreq"]
    pre: all(0 <= o <= 3 for o in outs) and all(0 <= x <= 2 for x in lost)
    post: _
    """
    hx.begin()
    limit_v = P["limit"]
    outcomes = [hx.concretize_range(o, 0, 4) for o in outs]       # 0 answer, 1 None, 2 raises, 3 the handler thread cannot be started
    losts = [hx.concretize_range(x, 0, 3) for x in lost]     # 0 = no fault, 1 = connection lost while the handler runs, 2 = lost before the thread starts
    inputs = (limit, outs, lost)
    why = ""
    try:
        # all inputs are fixed above: the rest of the path runs natively
        with hx.untraced():
            b, app = _mk(limit_v, [o for o in outcomes if o != 3])
            n, p = b.node, b.peers[0]
            c, s = b.make_ready(p)
            for i in range(len(outcomes)):
                if c.ident not in n.connections:
                    c, s = b.make_ready(p)
                b.inject(c, _undef_req(100 + i) if P.get("undef") else B.ccr(PEER, 100 + i, 100 + i))
                if losts[i] == 2:
                    n.close_connection_socket(c, B.DISCONNECT_REASON_GONE_AWAY)
                if not app._recv_msg_queue.empty():
                    WORLD.thread_start_fails = outcomes[i] == 3          # Thread.start raises RuntimeError (handled by the library)
                    try:
                        WORLD.pump_queue(app._recv_msg_queue, app._wait_for_recv_msg)
                    finally:
                        WORLD.thread_start_fails = False
                if losts[i] == 1:
                    n.close_connection_socket(c, B.DISCONNECT_REASON_GONE_AWAY)
                _pump_app(app)
                B.drain(c)
            why = _probe(b, app, limit_v, "after %r/%r" % (outcomes, losts))
    except Exception as e:
        why = "worker thread body ended by %s: %s" % (type(e).__name__, str(e)[:80])
    return hx.check(inputs, (why,), ("",), "a worker died, capacity was lost, or a later peer is not served")


# ----------------------------------------------------------------------------- B. I/O faults during handshake / request, then probe
FAULTS = ["close", "reset", "read_error", "write_error"]
POINTS = ["in_cer_header", "in_cer_body", "after_cer", "in_request", "after_request_before_answer"]


def io_fault(fault: int, point: int, second: int) -> bool:
    """
    pre: fault == P["fault"] and P["lo"] <= point < P["hi"] and 0 <= second <= len(FAULTS)
    post: _
    """
    hx.begin()
    f = FAULTS[P["fault"]]
    pt = hx.concretize_range(point, P["lo"], P["hi"])          # the fault strikes after pt bytes of the stream CER + request
    f2 = hx.concretize_range(second, 0, len(FAULTS) + 1)
    inputs = (fault, point, second)
    why = ""
    try:
        # all inputs are fixed above: the rest of the path runs natively
        with hx.untraced():
            h = H.Hist(init="fresh", persistent=False)
            b, n = h.b, h.n

            def strike(kind, sock):
                if kind == "close":
                    sock.inq.append(b"")
                elif kind == "reset":
                    sock.inq.append(real_socket.error(errno.ECONNRESET, "reset"))
                elif kind == "read_error":
                    sock.inq.append(real_socket.error(errno.EIO, "io"))
                else:
                    sock.send_plan.append(real_socket.error(errno.EPIPE, "pipe"))
                    sock.inq.append(b"")

            def attempt(kind):
                s = VSock(WORLD)
                b.listener.backlog.append(s)
                h.settle()
                cerb = B.cer(PEER, hbh=7, e2e=7).as_bytes()
                req = B.ccr(PEER, 55, 55).as_bytes()
                k = pt
                if k < len(cerb):
                    # the connection dies after k bytes of the CER
                    if k:
                        s.inq.append(cerb[:k])
                        h.settle()
                    strike(kind, s)
                elif k == len(cerb):
                    if kind == "write_error":
                        s.send_plan.append(real_socket.error(errno.EPIPE, "pipe"))
                    s.inq.append(cerb)
                    h.settle()
                    if kind != "write_error":
                        strike(kind, s)
                else:
                    s.inq.append(cerb)
                    h.settle()
                    r = k - len(cerb)
                    s.inq.append(req[:r])         # r == len(req): delivered to the (recording) application, not answered yet
                    h.settle()
                    strike(kind, s)
                h.settle()
            attempt(f)
            if f2 < len(FAULTS):
                attempt(FAULTS[f2])
            # nothing of the failed connections is consumed for good: no closed connection stays in the tables, its socket is closed
            WORLD.advance(n, 1)
            stale = [c0 for c0 in n.connections.values() if c0.state == B.PEER_CLOSED]
            open_dead = [sk for sk in WORLD.socks if sk.kind == "conn" and not sk.closed and not any(v is sk for v in n.peer_sockets.values())]
            if stale:
                why = "a connection that has ended (state CLOSED, %d unsent bytes) is still tracked by the node" % len(stale[0].write_buffer)
            elif open_dead:
                why = "the socket of a connection that is gone was never closed"
            # reconnect-and-serve probe through the real I/O loop
            s = VSock(WORLD)
            b.listener.backlog.append(s)
            h.settle()
            s.inq.append(B.cer(PEER, hbh=9001, e2e=9001).as_bytes())
            h.settle()
            got = [(m.header.command_code, getattr(m, "result_code", None)) for m in WORLD.frames(s.out)]
            s.out = b""
            if why:
                pass
            elif got != [(257, 2001)]:
                why = "probe CER answered %r" % (got,)
            else:
                app = h.app
                before = len(app.requests)
                for i in range(2):
                    s.inq.append(B.ccr(PEER, 9100 + i, 9100 + i).as_bytes())
                    h.settle()
                if len(app.requests) != before + 2:
                    why = "probe requests not delivered (%d of 2)" % (len(app.requests) - before)
                else:
                    for r in app.requests[-2:]:
                        app.send_answer(app.generate_answer(r, result_code=2001))
                    h.settle()
                    got = [(m.header.hop_by_hop_identifier, getattr(m, "result_code", None)) for m in WORLD.frames(s.out)]
                    if got != [(9100, 2001), (9101, 2001)]:
                        why = "probe answers on the wire: %r" % (got,)
    except Exception as e:
        why = "I/O loop or worker body ended by %s: %s" % (type(e).__name__, str(e)[:80])
    return hx.check(inputs, (why,), ("",), "after the fault(s) a connecting peer must complete CER/CEA and be served as on a fresh node")


def reader_survives(kind: int, defect: int, raises: bool, st: int) -> bool:
    """
    pre: 0 <= kind < 18 and 0 <= defect < 5 and st == P["st"]
    post: _
    """
    hx.begin()
    from harness import C07
    k = C07.STEP_KINDS[hx.concretize_range(kind, 0, len(C07.STEP_KINDS))]
    d = C07.DEFECTS[hx.concretize_range(defect, 0, len(C07.DEFECTS))]
    stv = C07.STATES[P["st"]]
    inputs = (kind, defect, raises, st)
    try:
        b = B.Bench(n_peers=1, stats=True)
        n, p, app = b.node, b.peers[0], b.apps[0]
        c, s = b.make_ready(p)
        app.raise_in_handler = bool(raises)
        app.sync_answer = {"ccr_sync_rc": "rc", "ccr_sync_no_rc": "no_rc", "undef_req_2oh_sync": "rc"}.get(k)
        c.state = stv
        msg = C07.mk(k, 71, 72, d)
    except Exception as e:
        return hx.fail(inputs, "harness: %s" % type(e).__name__)
    try:
        b.inject(c, msg)                 # = the body of the connection's read thread for one decoded message
        died = ""
    except Exception as e:
        died = "%s: %s" % (type(e).__name__, str(e)[:60])
    return hx.check(inputs, (died,), ("",), "an exception escaping the dispatch of a decoded message ends the connection's read thread")


def specs(tier, seed, carve):
    q = tier == "quick"
    out = [dict(id="reader_survives/state%d" % st, fn="reader_survives", params={"st": st}, timeout=900,
                bound="connection state %d: one decoded message of 18 kinds (typed/untyped requests and answers, incl. repeated Origin-Host) x 5 defect classes x handler raises/returns" % st)
           for st in range(7)]
    out.append(dict(id="second_conn_survives", fn="second_conn_survives", params={}, timeout=300,
                    bound="one peer with two established connections (second READY or awaiting a DWA); either is lost by EOF / read error / node-initiated close; then a request on the other"))
    for kind in RACES:
      for slots in (1, 2):
        ms = RACE_STEPS[kind]
        width = ms if slots == 1 else 10
        for lo in range(0, ms if (slots == 1 or not q) else 30, width):
            out.append(dict(id="race/%s/p%d/%d" % (kind, slots, lo), fn="race", params={"race": kind, "slots": slots, "maxstep": ms, "lo": lo, "hi": min(ms, lo + width)}, timeout=1500 if q else 8000,
                            bound=("first preemption at step %d..%d; " % (lo, min(ms, lo + width) - 1)) + "%s: the connection's read thread (real gate, _receive_message, receive_cea/receive_cer, close_connection_socket, remove_peer_connection as cooperative generators) against the I/O thread (_handle_connections) - every placement of %d preemption(s) over the statements touching shared state" % (kind, slots)))
    for limit in (0, 1, 2):
        out.append(dict(id="threading_app/undef/2/limit%d" % limit, fn="threading_app", keep_logging=True, params={"nreq": 2, "limit": limit, "undef": True}, timeout=900,
                        bound="as threading_app with 2 requests of a command without python class (decoded from the wire, no Session-Id), logging statements in place; thread limit %d" % limit))
    for nreq in (1, 2, 3):
      for limit in (0, 1, 2):
        out.append(dict(id="threading_app/%d/limit%d" % (nreq, limit), fn="threading_app", keep_logging=True, params={"nreq": nreq, "limit": limit}, timeout=900 if nreq < 3 else 6000,
                        bound="thread limit " + str(limit) + " x %d requests with handler outcome in {answer, None, raises, thread cannot be started} and connection loss in {none, while the handler runs, before the thread starts} each, then a probe of limit+2 requests" % nreq))
    total = len(B.cer(PEER, hbh=7, e2e=7).as_bytes()) + len(B.ccr(PEER, 55, 55).as_bytes()) + 1
    for fi, fn_ in enumerate(FAULTS):
        for lo in range(0, total, 120):
            out.append(dict(id="io_fault/%s/%d" % (fn_, lo), fn="io_fault", params={"fault": fi, "lo": lo, "hi": min(total, lo + 120)}, timeout=900,
                            bound="fault %s after every byte offset in [%d, %d) of the stream CER + request (incl. while the CEA is written, and after the request was handed to the application) x optional second fault of any kind at the same offset, then a reconnect-and-serve probe through the real I/O loop" % (fn_, lo, min(total, lo + 120))))
    return out


# ----------------------------------------------------------------------------- C. reader thread x I/O thread races on one connection
RACES = ["cea_reject", "cer_then_gone", "cer_unknown_then_gone"]
RACE_STEPS = {"cea_reject": 90, "cer_then_gone": 90, "cer_unknown_then_gone": 80}


def race(sched: List[int], tgt: List[int]) -> bool:
    """
    pre: len(sched) == P["slots"] and len(tgt) == P["slots"] and all(0 <= s < P["maxstep"] for s in sched)
    pre: all(sched[i] < sched[i + 1] for i in range(len(sched) - 1)) and all(0 <= x <= 1 for x in tgt)
    pre: P["lo"] <= sched[0] < P["hi"]
    post: _
    """
    hx.begin()
    from harness import race as R
    kind = P["race"]
    inputs = (sched, tgt)
    why = ""
    # the schedule is the only symbolic input: fix it (one solver-decided branch per bisection step), then the two threads
    # run natively under exactly that schedule
    sched_c = [hx.concretize_range(x, 0, P["maxstep"]) for x in sched]
    tgt_c = [hx.concretize_range(x, 0, 2) for x in tgt]
    try:
      with hx.untraced():
          b = B.Bench(n_peers=1)
          n, p, app = b.node, b.peers[0], b.apps[0]
          if kind == "cea_reject":
              # our CER is answered with an error CEA and the peer closes at once
              c = b.dial(p, "ok")
              B.drain(c)
              s = n.peer_sockets[c.ident]
              s.__class__ = R.StrictSock
              s.inq = [B.cea(PEER, result=5010, hbh=11, e2e=12).as_bytes(), b""]
          else:
              # a CER arrives and the peer closes at once
              c, s = b.accept()
              s.__class__ = R.StrictSock
              origin = PEER if kind == "cer_then_gone" else "stranger.local.realm"
              s.inq = [B.cer(origin, hbh=11, e2e=12).as_bytes(), b""]
          WORLD.pipe.clear()
          io_death, reader_death = R.run_race(n, c, sched_c, tgt_c, lambda v, lo, hi: v)
          if io_death:
              why = "the node's I/O thread died: " + io_death
          elif reader_death:
              why = "the connection's read thread died: " + reader_death
          elif c.ident in n.connections or not s.closed:
              why = "the lost connection is still registered / its socket open"
          elif p.connection is not None and p.connection.ident not in n.connections:
              why = "Peer.connection points at a removed connection (state %#x)" % p.connection.state
          elif app.is_ready.is_set():
              why = "application still flagged ready without any connection"
          else:
              why = _probe_simple(b)
    except Exception as e:
        why = "harness: %s: %s" % (type(e).__name__, str(e)[:100])
    return hx.check(inputs, (why,), ("",), "a thread died or the node is not as good as new after the connection was lost during the handshake")


def second_conn_survives(loss: int, which: int, st2: int) -> bool:
    """
    pre: 0 <= loss <= 2 and 0 <= which <= 1 and 0 <= st2 <= 1
    post: _
    """
    hx.begin()
    ls, wh, s2 = hx.concretize_range(loss, 0, 3), hx.concretize_range(which, 0, 2), hx.concretize_range(st2, 0, 2)
    inputs = (loss, which, st2)
    why = ""
    try:
        # all inputs are fixed above: the rest of the path runs natively
        with hx.untraced():
            # one peer, two established connections (the second accepted while the first is registered); one of them is lost by
            # EOF / read error / a node-initiated close: the connection thread must survive (no lock taken twice, no exception)
            # and the other connection keeps being served
            h = H.Hist(init="ready_inbound", persistent=False)
            n, app = h.n, h.app
            first = h.newest()
            h.ev_accept()
            h.ev_cer(PEER, [4])
            second = h.newest()
            if s2:
                n.send_dwr(second)
                h.settle()
            victim, other = (first, second) if wh == 0 else (second, first)
            if ls == 0:
                h.ev_gone(victim)
            elif ls == 1:
                h.ev_err(victim)
            else:
                n.close_connection_socket(victim, B.DISCONNECT_REASON_UNKNOWN)
                h.settle()
            before = len(app.requests)
            h._push(other, B.ccr(PEER, 9100, 9100).as_bytes())
            if len(app.requests) != before + 1:
                why = "the surviving connection is no longer served"
            elif other.ident not in n.connections:
                why = "the surviving connection was dropped"
    except Exception as e:
        why = "connection thread / worker ended by %s: %s" % (type(e).__name__, str(e)[:80])
    return hx.check(inputs, (why,), ("",), "losing one of a peer's two connections must not stop the node serving the other")


def _probe_simple(b):
    """a peer that connects afterwards completes its CER/CEA and has a request delivered"""
    n, app = b.node, b.apps[0]
    c, s = b.accept()
    b.inject(c, B.cer(PEER, hbh=9001, e2e=9001))
    out = B.summarize(B.drain(c))
    if [(x[1], x[5]) for x in out] != [(257, 2001)]:
        return "probe CER answered %r" % (out,)
    before = len(app.requests)
    b.inject(c, B.ccr(PEER, 9100, 9100))
    if len(app.requests) != before + 1:
        return "probe request not delivered"
    return ""


# ---------------------------------------------------------------------------------------------------------------------
# wire-level histories with this property's monitor (harness/uni.py): bytes in, bytes out, reference model of the far ends
from typing import List as _List  # noqa: E402
from harness import uni as U  # noqa: E402


def uni_history(ev: _List[int]) -> bool:
    """
    pre: len(ev) == P["depth"] and all(0 <= e < len(U.EVENTS) for e in ev)
    pre: all(ev[i] == P["prefix"][i] for i in range(len(P["prefix"])))
    post: _
    """
    return U.history_body(ev, P)


_own_specs = specs


def specs(tier, seed, carve):  # noqa: F811
    return _own_specs(tier, seed, carve) + U.specs(PROPERTY, tier, seed)


FUNCTIONS_ENCODED = list(FUNCTIONS_ENCODED) + U.FUNCTIONS
BOUNDS = {k: v + "; " + U.BOUNDS[k] for k, v in BOUNDS.items()}
OUTSIDE = list(OUTSIDE) + U.OUTSIDE
