"""C05 - stream framing is chunking-invariant, ordered, exactly-once and always progresses."""
import queue as _q
from engine import hx
from engine.env import STUBS  # noqa: F401
from harness import bench as B
from harness.C01 import be

PROPERTY = "C05"
P = {}
FUNCTIONS_ENCODED = ["PeerConnection.work_read_queue (the real thread body, run as a call)", "PeerConnection.__dispatch_message",
                     "MessageHeader.from_bytes", "Message.from_bytes", "PeerConnection.close"]
ASSUMPTIONS = ["the read thread is its body function; Queue.get(True, 5) returns the next network read or times out (Empty) when the scripted reads are exhausted",
               "non-termination is detected by a progress monitor: three framing iterations with unchanged buffer length and delivery count"]
BOUNDS = {"quick": "length field: all 2^24 values on the first of two frames (and with one symbolic cut); undecodable body at each position of a 3-frame stream; chunking: every single cut position of 2- and 3-frame streams (DWR/CCR/DWA, 40..150 B); every pair of cut positions of a 2-frame stream",
          "thorough": "every pair of cut positions of the 3-frame stream; length field x one cut on both frames"}
OUTSIDE = ["streams of 4..6 messages", "frames up to 8 KiB", "more than 2 cuts", "byte-at-a-time delivery of long streams"]


class Spin(BaseException):
    pass


class HQ:
    """scripted network reads; Empty (= the 5 s timeout) once they are exhausted, which also ends the run"""

    def __init__(self, chunks, th):
        self.c = list(chunks)
        self.th = th

    def get(self, block=True, timeout=None):
        if not self.c:
            self.th.stopped = True
            raise _q.Empty
        return self.c.pop(0)

    def put(self, x):
        self.c.append(x)

    def empty(self):
        return not self.c


class TH:
    stopped = False

    @property
    def is_stopped(self):
        return self.stopped


def _frames():
    f1 = B.dwr("peer1.local.realm", 11, 111).as_bytes()
    f2 = B.ccr("peer1.local.realm", 22, 222).as_bytes()
    f3 = B.dwa("peer1.local.realm", 33, 333).as_bytes()
    return f1, f2, f3


F1, F2, F3 = _frames()
BAD_BODY = F1[:20] + b"\x00\x00\x01\x08\x40\x00\x00\x05" + F1[28:]      # correct length, first AVP length 5 < header size: undecodable


def run_reader(chunks):
    """returns (delivered hop-by-hop ids | None on spin, state, silently_stopped, leftover buffer length)"""
    import diameter.node.peer as peer_mod
    th = TH()
    c = B.PeerConnection("10.0.1.1", 1, B.PEER_RECV, interrupt_fileno=991)
    c.state = B.PEER_READY
    got = []
    c.message_handler = lambda conn, m: got.append(m.header.hop_by_hop_identifier)
    hq = HQ(chunks, th)
    c._read_buffer_queue = hq
    real = peer_mod.MessageHeader.from_bytes
    last = [None, 0]

    def counting(data):
        key = (len(c._read_buffer), len(got))
        if last[0] == key:
            last[1] += 1
            if last[1] > 2:
                raise Spin()
        else:
            last[0] = key
            last[1] = 0
        return real(data)
    peer_mod.MessageHeader.from_bytes = staticmethod(counting)
    spun = False
    try:
        c.work_read_queue(th)
    except Spin:
        spun = True
    finally:
        peer_mod.MessageHeader.from_bytes = staticmethod(real)
    silent = (not spun) and (not hq.empty()) and c.state != B.PEER_CLOSED
    return (None if spun else got), c.state, silent, len(c._read_buffer)


# ----------------------------------------------------------------------------- 1. the length field
def bad_length(L: int) -> bool:
    """
    pre: 0 <= L <= 0xffffff
    post: _
    """
    hx.begin()
    bad = F1[:1] + be(L, 3) + F1[4:]
    try:
        got, state, silent, left = run_reader([bad + F2, F3])
    except Exception as e:
        return hx.fail((L,), "reader thread died: " + type(e).__name__)
    if got is None:
        return hx.check((L,), ("spin",), ("progress",), "the reader spins without consuming input")
    if silent:
        return hx.check((L,), ("stopped silently",), ("servicing",), "the reader stopped servicing the connection without closing it")
    if L == len(F1):
        return hx.check((L,), (got, state), ([11, 22, 33], B.PEER_READY), "true length: all frames delivered once, in order")
    # any other value: resynchronised (some suffix delivered), waiting for more bytes, or closed - never a frame twice / out of order
    ok = state in (B.PEER_READY, B.PEER_CLOSED) and got in ([], [22], [22, 33], [33], [11], [11, 22], [11, 22, 33])
    return hx.holds((L,), ok, (got, state), "wrong length field: must resynchronise, wait or close")


def bad_length_cut(L: int, a: int) -> bool:
    """
    pre: 0 <= L <= 0xffffff and 0 <= a <= len(F1) + len(F2)
    post: _
    """
    hx.begin()
    which = P["which"]
    if which == 0:
        s = F1[:1] + be(L, 3) + F1[4:] + F2
        true_len = len(F1)
    else:
        s = F1 + F2[:1] + be(L, 3) + F2[4:]
        true_len = len(F2)
    k = hx.concretize_range(a, 0, len(s) + 1)
    try:
        got, state, silent, left = run_reader([s[:k], s[k:], F3])
    except Exception as e:
        return hx.fail((L, a), "reader thread died: " + type(e).__name__)
    if got is None:
        return hx.check((L, a), ("spin",), ("progress",), "the reader spins without consuming input")
    if silent:
        return hx.check((L, a), ("stopped silently",), ("servicing",), "the reader stopped servicing the connection without closing it")
    if L == true_len:
        return hx.check((L, a), (got, state), ([11, 22, 33], B.PEER_READY), "true length: all frames delivered once, in order")
    ok = state in (B.PEER_READY, B.PEER_CLOSED) and all(x in (11, 22, 33) for x in got) and sorted(set(got)) == got
    return hx.holds((L, a), ok, (got, state), "wrong length field: no frame twice, none out of order")


# ----------------------------------------------------------------------------- 2. undecodable body with a correct length
def bad_body(pos: int, a: int) -> bool:
    """
    pre: pos == P["pos"] and 0 <= a <= P["n"]
    post: _
    """
    hx.begin()
    p = P["pos"]
    frames = [F1, F2, F3]
    ids = [11, 22, 33]
    frames[p] = BAD_BODY if p == 0 else (frames[p][:20] + b"\x00\x00\x01\x08\x40\x00\x00\x05" + frames[p][28:])
    s = b"".join(frames)
    k = hx.concretize_range(a, 0, P["n"] + 1)
    k = min(k, len(s))
    exp = [x for i, x in enumerate(ids) if i != p]
    try:
        got, state, silent, left = run_reader([s[:k], s[k:]])
        # the same with every later frame arriving in a read of its own
        bounds = [len(frames[0]), len(frames[0]) + len(frames[1]), len(s)]
        cuts = sorted({k} | {x for x in bounds if x > k})
        chunks, last = [], 0
        for x in cuts:
            chunks.append(s[last:x])
            last = x
        chunks.append(s[last:])
        got2, state2, silent2, left2 = run_reader([ch for ch in chunks if ch])
    except Exception as e:
        return hx.fail((pos, a), "reader thread died: " + type(e).__name__)
    return hx.check((pos, a), (got, state, silent, left, got2, state2, silent2, left2), (exp, B.PEER_READY, False, 0, exp, B.PEER_READY, False, 0),
                    "an undecodable frame is skipped alone; its neighbours are delivered (also when they arrive in reads of their own)")


# ----------------------------------------------------------------------------- 3. chunking
def _h20(hbh):
    m = B.Message()
    m.header.command_code = 999
    m.header.is_request = True
    m.header.hop_by_hop_identifier = hbh
    return m.as_bytes()


H20a, H20b = _h20(44), _h20(55)          # header-only messages: exactly 20 bytes
STREAMS = {"2": (F1 + F2, [11, 22]), "3": (F1 + F2 + F3, [11, 22, 33]), "2b": (F2 + F3, [22, 33]),
           "3h": (H20a + F1 + H20b, [44, 11, 55]), "2h": (F3 + H20a, [33, 44])}


def cut1(a: int) -> bool:
    """
    pre: 0 <= a <= len(STREAMS[P["stream"]][0])
    post: _
    """
    hx.begin()
    s, ids = STREAMS[P["stream"]]
    k = hx.concretize_range(a, 0, len(s) + 1)
    try:
        got, state, silent, left = run_reader([s[:k], s[k:]])
    except Exception as e:
        return hx.fail((a,), "reader thread died: " + type(e).__name__)
    return hx.check((a,), (got, state, silent, left), (ids, B.PEER_READY, False, 0), "delivery must not depend on where the stream is cut")


def cut2(a: int, b: int) -> bool:
    """
    pre: P["alo"] <= a < P["ahi"] and a <= b <= len(STREAMS[P["stream"]][0])
    post: _
    """
    hx.begin()
    s, ids = STREAMS[P["stream"]]
    k1 = hx.concretize_range(a, P["alo"], P["ahi"])
    k2 = hx.concretize_range(b, k1, len(s) + 1)
    try:
        got, state, silent, left = run_reader([s[:k1], s[k1:k2], s[k2:]])
    except Exception as e:
        return hx.fail((a, b), "reader thread died: " + type(e).__name__)
    return hx.check((a, b), (got, state, silent, left), (ids, B.PEER_READY, False, 0), "delivery must not depend on where the stream is cut (2 cuts)")


def repro_zero_length():
    """kept as a record of the repaired defect: header length 0 makes work_read_queue spin"""
    got, state, silent, left = run_reader([F1[:1] + b"\x00\x00\x00" + F1[4:] + F2])
    return got is None, "spin" if got is None else "no spin: %r" % (got,)


def specs(tier, seed, carve):
    import random
    q = tier == "quick"
    rnd = random.Random(seed)
    out = [dict(id="bad_length", fn="bad_length", params={}, timeout=300, bound="all 2^24 values of the length field of the first of three frames (2 reads)")]
    if not q:
        for which in (0, 1):
            out.append(dict(id="bad_length_cut/%d" % which, fn="bad_length_cut", params={"which": which}, timeout=3000,
                            bound="all 2^24 length values on frame %d x every cut position of the 2-frame stream" % (which + 1)))
    n3 = len(F1) + len(F2) + len(F3)
    for pos in (0, 1, 2):
        out.append(dict(id="bad_body/%d" % pos, fn="bad_body", params={"n": n3, "pos": pos}, timeout=400, bound="undecodable body (correct length) at position %d of 3 x every cut position" % pos))
    for st in ("2", "2b", "3", "3h", "2h"):
        out.append(dict(id="cut1/" + st, fn="cut1", params={"stream": st}, timeout=400, bound="every single cut position of stream %s (%d bytes)" % (st, len(STREAMS[st][0]))))
    for st in (("2",) if q else ("2", "3")):
        n = len(STREAMS[st][0])
        step = 2 if q else 4
        los = list(range(0, n + 1, step))
        if q:
            los = sorted(rnd.sample(los, 14))          # quick: a seeded sample of first-cut ranges; thorough: all of them
        for lo in los:
            out.append(dict(id="cut2/%s/%d" % (st, lo), fn="cut2", params={"stream": st, "alo": lo, "ahi": min(lo + step, n + 1)}, timeout=400 if q else 1800,
                            bound="every pair of cut positions a <= b of stream %s with a in [%d, %d)" % (st, lo, min(lo + step, n + 1))))
    return out


# ---------------------------------------------------------------------------------------------------------------------
# wire-level histories with this property's monitor (harness/uni.py): bytes in, bytes out, reference model of the far ends
from typing import List as _List  # noqa: E402
from harness import uni as U  # noqa: E402


def uni_history(ev: _List[int]) -> bool:
    """
    pre: len(ev) == P["depth"] and all(0 <= e < len(U.EVENTS) for e in ev)
    pre: all(ev[i] == P["prefix"][i] for i in range(len(P["prefix"])))
    post: _
    """
    return U.history_body(ev, P)


_own_specs = specs


def specs(tier, seed, carve):  # noqa: F811
    return _own_specs(tier, seed, carve) + U.specs(PROPERTY, tier, seed)


FUNCTIONS_ENCODED = list(FUNCTIONS_ENCODED) + U.FUNCTIONS
BOUNDS = {k: v + "; " + U.BOUNDS[k] for k, v in BOUNDS.items()}
OUTSIDE = list(OUTSIDE) + U.OUTSIDE
