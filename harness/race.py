"""Reader-thread x I/O-thread races on one connection (used by C14): the real Node._handle_connections,
close_connection_socket, remove_peer_connection, _receive_message, receive_cea and receive_cer are turned into
cooperative generators (engine.coop) and interleaved at every statement that mentions state shared between the
two threads; the schedule (where the <= k preemptions fall) is chosen by the solver."""
import errno
import socket as real_socket
from engine import coop
from engine.env import WORLD, VSock
from harness import bench as B
from diameter.node.node import Node

REG = {}
SHARED = ("_busy_lock", "peer_sockets", "connections", "socket_peers", "_half_ready_connections", "_peer_waiting_answer", "_origin_waiting_answer",
          "close", "setsockopt", "getsockopt", "select", "recv", "send", "fileno", "state", "connection", "host_identity", "node_name",
          "close_connection_socket", "remove_peer_connection", "_assign_peer_connection", "_flag_connection_as_ready", "add_out_msg",
          "is_set", "add_in_bytes", "is_stopped", "disconnect_reason")
APC, _ = coop.coop(Node._assign_peer_connection, registry=REG, shared=SHARED)
FCR, _ = coop.coop(Node._flag_connection_as_ready, registry=REG, shared=SHARED)
RPC, _ = coop.coop(Node.remove_peer_connection, registry=REG, shared=SHARED)
CCS, _ = coop.coop(Node.close_connection_socket, callees=("remove_peer_connection",), registry=REG, shared=SHARED)
RCEA, _ = coop.coop(Node.receive_cea, callees=("close_connection_socket", "_assign_peer_connection", "_flag_connection_as_ready"), registry=REG, shared=SHARED)
RCER, _ = coop.coop(Node.receive_cer, callees=("close_connection_socket", "_assign_peer_connection", "_flag_connection_as_ready"), registry=REG, shared=SHARED)
RM, _ = coop.coop(Node._receive_message, callees=("receive_cea", "receive_cer"), registry=REG, shared=SHARED)
HC, _ = coop.coop(Node._handle_connections, callees=("close_connection_socket",), waiters=("select",), registry=REG, shared=SHARED)


class EndLoop(BaseException):
    pass


class StrictSock(VSock):
    """a closed descriptor behaves like a closed descriptor: EBADF"""

    def _chk(self):
        if self.closed:
            raise real_socket.error(errno.EBADF, "Bad file descriptor")

    def setsockopt(self, *a):
        self._chk()

    def getsockopt(self, *a):
        self._chk()
        return self.so_error

    def recv(self, n):
        self._chk()
        return VSock.recv(self, n)

    def send(self, b):
        self._chk()
        return VSock.send(self, b)


class RaceSelect:
    """select double for the cooperative I/O loop: real select raises ValueError for a closed socket object (fileno -1)"""

    def __init__(self, node):
        self.n = node
        self.finish = False

    def coop_select(self, r, w, x, t):
        for s in list(r[1:]) + list(w):
            if s.fileno() == -1:
                return True, ValueError("file descriptor cannot be a negative integer (-1)")
        rr = []
        if WORLD.pipe:
            rr.append(r[0])
        rr += [s for s in r[1:] if s.inq or s.backlog]
        ww = [s for s in w if s.connect_plan != "pending"]
        if rr or ww:
            return True, (rr, ww, [])
        if self.finish:
            return True, EndLoop()
        return False, None


class TH:
    def __init__(self):
        self.stopped = False

    @property
    def is_stopped(self):
        return self.stopped


def run_race(n, c, sched, tgt, concretize_range, max_steps=3000):
    """runs the I/O thread and the reader of connection c to quiescence under the given preemption schedule.
    returns (io_death, reader_death): '' or the exception that ended the thread body"""
    vs = RaceSelect(n)
    HC.__globals__["select"] = vs
    if hasattr(n, "_busy_lock"):
        n._busy_lock = coop.CoopLock()          # threading.Lock -> cooperative lock (a blocked `with` yields)
    captured = []
    c.message_handler = lambda conn, msg: captured.append(msg)
    q = coop.CoopQueue()
    c._read_buffer_queue = q
    deaths = ["", ""]
    reader_done = [False]

    def io():
        try:
            yield from HC(n, TH())
        except EndLoop:
            return
        except Exception as e:
            deaths[0] = "%s: %s" % (type(e).__name__, str(e)[:80])
            vs.finish = True

    def reader():
        try:
            while True:
                ready, item = q.coop_get()
                if not ready:
                    if vs.finish:
                        return
                    # nothing to read: the reader is idle; once the I/O thread has nothing left either, everything is quiet
                    if not WORLD.pipe and not any((s.inq or s.backlog) for s in n.peer_sockets.values() if not s.closed):
                        vs.finish = True
                    yield coop.BLOCKED
                    continue
                if isinstance(item, BaseException):
                    return
                # PeerConnection.work_read_queue for whole frames (framing itself: C05)
                c._read_buffer += item
                c.reset_last_read()
                while len(c._read_buffer) >= 20:
                    ln = int.from_bytes(c._read_buffer[1:4], "big")
                    if len(c._read_buffer) < ln:
                        break
                    msg = B.Message.from_bytes(c._read_buffer[:ln])
                    c._read_buffer = c._read_buffer[ln:]
                    yield 0
                    c._PeerConnection__dispatch_message(msg)          # the real gate; the handler is run cooperatively below
                    while captured:
                        yield from RM(n, c, captured.pop(0))
        except Exception as e:
            deaths[1] = "%s: %s" % (type(e).__name__, str(e)[:80])
        finally:
            reader_done[0] = True
    used = [False] * len(sched)

    def choose(step, nrunnable):
        for i in range(len(sched)):
            if not used[i] and sched[i] == step:
                used[i] = True
                return 1 + concretize_range(tgt[i], 0, 2)
        return 0
    coop.run_choices([io(), reader()], choose, len(sched), max_steps=max_steps)
    return deaths[0], deaths[1]
