"""C08 - requests reach exactly the matching application, else the specified error."""
import dataclasses
from engine import hx
from engine.env import STUBS, WORLD  # noqa: F401
from harness import bench as B
from harness.bench import drain
from harness import C03
from diameter.message import Message, DefinedMessage
from diameter.message.avp import avp as A

PROPERTY = "C08"
P = {}
FUNCTIONS_ENCODED = ["validate_message_avps", "Node._receive_message", "Node._receive_app_request", "Node.add_application / add_peer (route table construction)",
                     "Node._generate_answer", "Node.send_message", "Application.receive_request", "Message.from_bytes / typed __post_init__ (requests are decoded from bytes)"]
ASSUMPTIONS = ["when several rejection reasons apply at once the property does not order them: any applicable code is accepted",
               "an 'unknown' peer on a ready connection is constructed directly (over-approximation; a CER from an unknown peer is refused with 3010)"]
BOUNDS = {"quick": "missing AVPs: every typed request class x every set of <= 2 removed required attributes (good route); routing: CCR/ACR x application id {registered, other registered, unregistered} x realm {own, additional, foreign} x sender {configured, configured for the other app, known unconfigured, unknown} x 4 node configurations x handler raises or not; base-protocol requests never reach an application",
          "thorough": "same with sets of <= 3 removed attributes"}
OUTSIDE = ["3 registered applications", "interleaving with base-protocol traffic beyond one preceding DWR"]


def _req_classes():
    out = []
    for name, cls in sorted(C03.CLASSES.items()):
        if name.startswith("m:") and cls.__name__.endswith("Request") and cls.code not in (257, 280, 282):
            out.append(name)
    return out


REQS = _req_classes()


def _fill(obj, depth=0):
    """type-directed concrete values for every required attribute that is still None"""
    for i, d in enumerate(C03.rows_of(type(obj))):
        if not d.is_required:
            continue
        cur = getattr(obj, d.attr_name, None)
        if cur not in (None, []):
            continue
        e = A.get_avp_dictionary_entry(d.avp_code, d.vendor_id)
        if e is None:
            continue
        k = C03.kind_of(e["type"])
        if k == "grouped":
            if d.type_class is None or depth > 2:
                continue
            v = _fill(d.type_class(), depth + 1)
        else:
            v = C03.concrete_value(k, i)[0]
        if d.attr_name == "destination_realm":
            v = B.REALM.encode()
        if d.attr_name == "origin_host":
            v = B.PEER_HOSTS[0].encode()
        setattr(obj, d.attr_name, [v] if isinstance(cur, list) else v)
    return obj


def required_scalar_rows(cls):
    """required rows the class does not fill in by default"""
    fresh = cls()
    out = []
    for i, d in enumerate(C03.rows_of(cls)):
        if d.is_required and getattr(fresh, d.attr_name, None) is None:      # scalar (list-typed attributes are outside the property's quantifier)
            out.append((i, d))
    return out


class App2(B.RecApp):
    pass


def _bench(cfg):
    """node configurations; returns bench with apps [A1, (A2)]"""
    if cfg == 0:
        b = B.Bench(n_peers=3, apps=((4, "auth"),), app_peers=[[0]], realms=["extra.realm"])
    elif cfg == 1:
        b = B.Bench(n_peers=3, apps=((4, "auth"), (4, "auth")), app_peers=[[0], [1]], realms=["extra.realm"])
    elif cfg == 2:
        b = B.Bench(n_peers=3, apps=((4, "auth"), (3, "acct")), app_peers=[[0], [0, 1]], realms=None)
    else:
        b = B.Bench(n_peers=3, apps=((4, "auth"),), app_peers=[[0, 1]], realms=["extra.realm"])
    return b


def _ready_conn(b, sender):
    n = b.node
    if sender < 3:
        p = b.peers[sender]
        c, s = b.accept("10.0.1.%d" % (sender + 1))
        b.inject(c, B.cer(p.node_name, apps=[4, 3], acct=[3]))
        drain(c)
        return c
    c, s = b.accept("10.0.9.9")
    c.host_identity = "stranger.local.realm"
    c.state = B.PEER_READY
    return c


def _ref_route(b, cfg, sender, app_id, realm):
    """reference from the property text: (outcome, app index)"""
    n = b.node
    served = {}
    cfgs = {0: [(0, [0], ["extra.realm"])], 1: [(0, [0], ["extra.realm"]), (1, [1], ["extra.realm"])], 2: [(0, [0], []), (1, [0, 1], [])],
            3: [(0, [0, 1], ["extra.realm"])]}[cfg]
    for (ai, pidx, extra) in cfgs:
        for pi in pidx:
            for r in [B.REALM] + extra:
                served.setdefault(r, []).append((ai, pi))
    served.setdefault(B.REALM, [])
    if realm not in served:
        return ("3003", None)
    ids = {0: 4, 1: 4 if cfg == 1 else 3}
    cands = []
    for (ai, pi) in served[realm]:
        if ids[ai] == app_id:
            if sender == 3 or pi == sender:
                if ai not in cands:
                    cands.append(ai)
    if not cands:
        return ("3007", None)
    return ("deliver", cands[0] if sender != 3 else None)


# ----------------------------------------------------------------------------- A. missing required AVPs per typed request class
def missing_avps(r1: int, r2: int, r3: int) -> bool:
    """
    pre: -1 <= r1 < P["nreq"] and -1 <= r2 < P["nreq"] and -1 <= r3 < P["nreq"] and (P["three"] or r3 == -1)
    pre: r1 <= r2 and r2 <= r3 or r3 == -1 and r1 <= r2
    post: _
    """
    hx.begin()
    cls = C03.CLASSES[P["cls"]]
    rows = required_scalar_rows(cls)
    n_ = len(rows)
    rm = sorted({hx.concretize_range(x, -1, n_) for x in (r1, r2, r3)} - {-1})
    inputs = (r1, r2, r3)
    try:
        b = _bench(0)
        app = b.apps[0]
        c = _ready_conn(b, 0)
        m = _fill(cls())
        m.header.application_id = 4
        m.header.hop_by_hop_identifier = 51
        m.header.end_to_end_identifier = 52
        removed = []
        for k in rm:
            i, d = rows[k]
            cur = getattr(m, d.attr_name)
            setattr(m, d.attr_name, [] if isinstance(cur, list) else None)
            removed.append((d.avp_code, d.vendor_id))
        wire = m.as_bytes()
        msg = Message.from_bytes(wire)
        # a preceding watchdog must not disturb anything
        b.inject(c, B.dwr(B.PEER_HOSTS[0], 7, 8))
        drain(c)
        b.inject(c, msg)
        out = drain(c)
        answers = [x for x in out if not x.header.is_request]
        delivered = len(app.requests)
        rc = [getattr(a, "result_code", None) for a in answers]
        failed = None
        if answers and getattr(answers[0], "failed_avp", None) is not None:
            fa = answers[0].failed_avp
            lst = fa if isinstance(fa, list) else [fa]
            failed = sorted((x.code, x.vendor_id) for f in lst for x in getattr(f, "additional_avps", []))
        ans_cls = type(answers[0]) if answers else None
        declares = ans_cls is not None and any(d.attr_name == "failed_avp" for d in C03.rows_of(ans_cls)) if ans_cls and hasattr(ans_cls, "avp_def") else False
        hdr_ok = all((a.header.hop_by_hop_identifier, a.header.end_to_end_identifier, a.header.command_code) == (51, 52, cls.code) for a in answers)
    except Exception as e:
        return hx.fail(inputs, "raised %s: %s" % (type(e).__name__, str(e)[:80]))
    dest_removed = any(rows[k][1].attr_name == "destination_realm" for k in rm)
    if not removed:
        return hx.check(inputs, (delivered, rc), (1, []), "a complete request must be handed to the matching application exactly once")
    exp_failed = sorted(removed) if declares else failed
    return hx.check(inputs, (delivered, rc, failed, hdr_ok), (0, [5005], exp_failed, True),
                    "missing required AVP(s): 5005 from the node with Failed-AVP listing exactly the missing ones; the application sees nothing")



# ----------------------------------------------------------------------------- A2. required AVPs the class pre-sets, missing on the wire
def defaulted_rows(cls):
    """required scalar rows that a fresh instance of the class already fills in"""
    fresh = cls()
    return [(i, d) for i, d in enumerate(C03.rows_of(cls))
            if d.is_required and getattr(fresh, d.attr_name, None) is not None and not isinstance(getattr(fresh, d.attr_name), list)]


def _strip_avp(wire, code, vendor):
    g = Message.from_bytes(wire, plain_msg=True)
    g.avps = [a for a in g.avps if (a.code, a.vendor_id) != (code, vendor)]
    return g.as_bytes()


def missing_defaulted(r: int) -> bool:
    """
    pre: 0 <= r < P["nrows"]
    post: _
    """
    hx.begin()
    cls = C03.CLASSES[P["cls"]]
    rows = defaulted_rows(cls)
    k = hx.concretize_range(r, 0, len(rows))
    i, d = rows[k]
    inputs = (r,)
    try:
        with hx.untraced():
            b = _bench(0)
            app = b.apps[0]
            c = _ready_conn(b, 0)
            m = _fill(cls())
            m.header.application_id = 4
            m.header.hop_by_hop_identifier = 51
            m.header.end_to_end_identifier = 52
            wire = _strip_avp(m.as_bytes(), d.avp_code, d.vendor_id)        # the AVP is absent from the message as received
            b.inject(c, Message.from_bytes(wire))
            out = drain(c)
            rc = [getattr(a, "result_code", None) for a in out if not a.header.is_request]
            delivered = len(app.requests)
    except Exception as e:
        return hx.fail(inputs, "raised %s: %s" % (type(e).__name__, str(e)[:80]))
    if "c08_defaulted_required_avp" in P["carve"]:
        # known finding: the class default stands in for the missing AVP.  Still required: delivered once or answered 5005, never both
        return hx.holds(inputs, (delivered, rc) in ((1, []), (0, [5005])), (delivered, rc), "request lacking a required AVP: neither delivered once nor answered 5005")
    return hx.check(inputs, (delivered, rc), (0, [5005]), "a request that lacks the required AVP %s on the wire must be answered 5005 and not shown to the application" % d.attr_name)


def repro_defaulted_required():
    cls = C03.CLASSES["m:credit_control.CreditControlRequest"]
    b = _bench(0)
    c = _ready_conn(b, 0)
    m = _fill(cls())
    m.header.application_id = 4
    m.header.hop_by_hop_identifier = 51
    m.header.end_to_end_identifier = 52
    wire = _strip_avp(m.as_bytes(), 258, 0)
    b.inject(c, Message.from_bytes(wire))
    out = drain(c)
    return len(b.apps[0].requests) == 1, "CCR without Auth-Application-Id on the wire: delivered %d time(s), node answers %r" % (
        len(b.apps[0].requests), [getattr(a, "result_code", None) for a in out])


# ----------------------------------------------------------------------------- B. routing dimensions
def routing(ai: int, ri: int, sender: int, raises: bool) -> bool:
    """
    pre: 0 <= ai <= 2 and 0 <= ri <= 3 and 0 <= sender <= 3
    post: _
    """
    hx.begin()
    cfg = P["cfg"]
    app_id = [4, 3, 9][hx.concretize_range(ai, 0, 3)]
    # 'known.realm': a peer of that realm is configured (add_peer) but no application serves it and it is not a default peer
    realm = [B.REALM, "extra.realm", "foreign.realm", "known.realm"][hx.concretize_range(ri, 0, 4)]
    snd = hx.concretize_range(sender, 0, 4)
    inputs = (ai, ri, sender, raises)
    try:
        b = _bench(cfg)
        b.node.add_peer("aaa://peer9.known.realm", "known.realm", ip_addresses=["10.0.7.7"])
        for a in b.apps:
            a.raise_in_handler = bool(raises)
        c = _ready_conn(b, snd)
        if P["cmd"] == "ccr":
            m = B.ccr(B.PEER_HOSTS[min(snd, 2)], 61, 62, app=app_id, realm=realm)
        else:
            m = _fill(C03.CLASSES["m:accounting.AccountingRequest"]())
            m.destination_realm = realm.encode()
            m.header.application_id = app_id
            m.header.hop_by_hop_identifier = 61
            m.header.end_to_end_identifier = 62
        msg = Message.from_bytes(m.as_bytes())
        b.inject(c, msg)
        out = drain(c)
        rc = [getattr(a, "result_code", None) for a in out if not a.header.is_request]
        got = [len(a.requests) for a in b.apps]
    except Exception as e:
        return hx.fail(inputs, "raised %s: %s" % (type(e).__name__, str(e)[:80]))
    outcome, idx = _ref_route(b, cfg, snd, app_id, realm)
    if outcome == "deliver":
        if snd == 3:
            ok = sum(got) == 1 and (rc == ([5012] if raises else []))
            return hx.holds(inputs, ok, (got, rc), "unknown peer: exactly one application with that id receives the request")
        exp_got = [1 if i == idx else 0 for i in range(len(b.apps))]
        return hx.check(inputs, (got, rc), (exp_got, [5012] if raises else []), "request must reach exactly the application configured for (realm, application id, peer)")
    code = 3003 if outcome == "3003" else 3007
    return hx.check(inputs, (got, rc), ([0] * len(b.apps), [code]), "no matching application: the node answers itself and no application sees the request")


# ----------------------------------------------------------------------------- B2. an application registered while traffic is flowing
def late_app(ri: int, pre: int, second: bool) -> bool:
    """
    pre: 0 <= ri <= 1 and 0 <= pre <= 2
    post: _
    """
    hx.begin()
    # peer 1 is connected and ready through application A (id 4); application G (id 3) is registered only later, for peer 1 and
    # - ri == 1 - an additional realm.  Before that, `pre` requests for G's application id and realm have been answered 3007 /
    # 3003; afterwards the same request must reach G exactly once.
    r = hx.concretize_range(ri, 0, 2)
    npre = hx.concretize_range(pre, 0, 3)
    second = bool(hx.concretize(second))
    inputs = (ri, pre, second)
    # ri == 0: the peers live in the node's realm, requests are for that realm.  ri == 1: the peers live in 'visited.realm',
    # requests are for the node's own realm, which the applications serve as an additional realm (realms=[...])
    realm = B.REALM
    try:
        with hx.untraced():
            b = B.Bench(n_peers=2, apps=((4, "auth"),), app_peers=[[0, 1]], peer_realms=([None, ["visited.realm", "visited.realm"]][r]),
                        realms=([None, [B.REALM]][r]))
            n = b.node
            c, s = b.accept("10.0.1.1")
            b.inject(c, B.cer(B.PEER_HOSTS[0], apps=[4, 3], acct=[3]))
            drain(c)
            acr = C03.CLASSES["m:accounting.AccountingRequest"]

            def req(i):
                m = _fill(acr())
                m.destination_realm = realm.encode()
                m.header.application_id = 3
                m.header.hop_by_hop_identifier = 70 + i
                m.header.end_to_end_identifier = 70 + i
                b.inject(c, Message.from_bytes(m.as_bytes()))
                return [getattr(a, "result_code", None) for a in drain(c) if not a.header.is_request]
            before = [req(i) for i in range(npre)]
            g = B.RecApp(3, is_acct_application=True)
            n.add_application(g, [b.peers[0]] + ([b.peers[1]] if second else []), [B.REALM] if r else None)
            after = req(5)
            obs = (before, after, len(g.requests), len(b.apps[0].requests))
            exp = ([[3007]] * npre, [], 1, 0)
    except Exception as e:
        return hx.fail(inputs, "raised %s: %s" % (type(e).__name__, str(e)[:80]))
    return hx.check(inputs, obs, exp, "a request matching an application that was registered after earlier requests were refused must reach that application exactly once")


def base_never_to_app(kind: int) -> bool:
    """
    pre: 0 <= kind <= 2
    post: _
    """
    hx.begin()
    k = hx.concretize_range(kind, 0, 3)
    try:
        b = _bench(0)
        c = _ready_conn(b, 0)
        msg = [B.cer(B.PEER_HOSTS[0], hbh=91, e2e=92), B.dwr(B.PEER_HOSTS[0], 91, 92), B.dpr(B.PEER_HOSTS[0], 91, 92)][k]
        msg.header.application_id = 4          # even when it claims a registered application id
        b.inject(c, msg)
        out = B.summarize(drain(c))
        got = len(b.apps[0].requests)
    except Exception as e:
        return hx.fail((kind,), "raised %s" % type(e).__name__)
    code = [257, 280, 282][k]
    outs = [(x[0], x[1]) for x in out]
    # DWR and DPR are answered by the node; whether a CER on an established connection is answered is not this property's
    # business (it is ignored since 55e133f) - it must never reach an application
    ok = got == 0 and (outs == [(False, code)] or (k == 0 and outs == []))
    return hx.holds((kind,), ok, (got, outs), "capabilities-exchange, watchdog and disconnect requests are never handed to applications")


def specs(tier, seed, carve):
    q = tier == "quick"
    out = []
    for name in REQS:
        n_ = len(required_scalar_rows(C03.CLASSES[name]))
        out.append(dict(id="missing_avps/" + name[2:], fn="missing_avps", params={"cls": name, "nreq": n_, "three": not q}, timeout=600 if q else 2400,
                        bound="%s: every set of <= %d of its %d required attributes removed (request decoded from bytes, preceded by a DWR)" % (name[2:], 2 if q else 3, n_)))
    for name in REQS:
        nd = len(defaulted_rows(C03.CLASSES[name]))
        if nd:
            out.append(dict(id="missing_defaulted/" + name[2:], fn="missing_defaulted", params={"cls": name, "nrows": nd}, timeout=300,
                            bound="%s: each of the %d required AVPs that the python class pre-sets (e.g. Auth-Application-Id) removed from the encoded request" % (name[2:], nd)))
    for cfg in (0, 1, 2, 3):
        for cmd in ("ccr", "acr"):
            out.append(dict(id="routing/cfg%d/%s" % (cfg, cmd), fn="routing", params={"cfg": cfg, "cmd": cmd}, timeout=900,
                            bound="node configuration %d, %s: application id {4, 3, 9} x realm {own, additional, foreign} x sender {peer1, peer2, peer3 (unconfigured), unknown} x handler raises" % (cfg, cmd)))
    out.append(dict(id="late_app", fn="late_app", params={}, timeout=300,
                    bound="application registered (for the peer's realm / an additional realm; for one or two peers) after 0..2 requests for it were refused with 3007 / 3003; then the same request"))
    out.append(dict(id="base_never_to_app", fn="base_never_to_app", params={}, timeout=120, bound="CER, DWR, DPR carrying a registered application id"))
    return out


# ---------------------------------------------------------------------------------------------------------------------
# wire-level histories with this property's monitor (harness/uni.py): bytes in, bytes out, reference model of the far ends
from typing import List as _List  # noqa: E402
from harness import uni as U  # noqa: E402


def uni_history(ev: _List[int]) -> bool:
    """
    pre: len(ev) == P["depth"] and all(0 <= e < len(U.EVENTS) for e in ev)
    pre: all(ev[i] == P["prefix"][i] for i in range(len(P["prefix"])))
    post: _
    """
    return U.history_body(ev, P)


_own_specs = specs


def specs(tier, seed, carve):  # noqa: F811
    return _own_specs(tier, seed, carve) + U.specs(PROPERTY, tier, seed)


FUNCTIONS_ENCODED = list(FUNCTIONS_ENCODED) + U.FUNCTIONS
BOUNDS = {k: v + "; " + U.BOUNDS[k] for k, v in BOUNDS.items()}
OUTSIDE = list(OUTSIDE) + U.OUTSIDE
