"""C03 - typed command/grouped attributes map 1:1 onto dictionary AVPs and round-trip."""
import dataclasses
import struct
from engine import hx
import diameter.message.commands as cmds
from diameter.message import Message, DefinedMessage, UndefinedMessage
from diameter.message.avp import avp as A
from diameter.message.avp import (Avp, AvpAddress, AvpFloat32, AvpFloat64, AvpGrouped, AvpInteger32, AvpInteger64, AvpOctetString, AvpTime,
                                  AvpUnsigned32, AvpUnsigned64, AvpUtf8String)
from diameter.message.avp import grouped as G
from diameter.message.avp.generator import generate_avps_from_defs, AvpGenDef
from diameter.message.commands._attributes import assign_attr_from_defs
from diameter.message.packer import Unpacker
from harness.C01 import be, ref_avp, ref_utf8, NTP_1900, T_MIN, T_MAX, mk_dt, dt_secs

PROPERTY = "C03"
P = {}
FUNCTIONS_ENCODED = ["generate_avps_from_defs", "assign_attr_from_defs", "DefinedMessage.avps / __getattr__ / __post_init__ of every typed command",
                     "Avp.new", "typed value setters/getters", "Message.as_bytes / Message.from_bytes", "UndefinedMessage._assign_attr_values / _produce_attr_name"]
STUBS = ["io.BytesIO -> pure-Python buffer (symbolic runs)", "datetime.datetime -> seconds-carrying double for Time rows (symbolic runs)", "inet_pton/ntop arguments realised"]
ASSUMPTIONS = ["one symbolic attribute per obligation (the row under test); other attributes keep the class defaults",
               "the table part (every row denotes one dictionary AVP, grouped iff container class, no duplicates) is a finite table: enumerated, not solved"]
BOUNDS = {"quick": "table: all rows of all classes (enumerated); round trip: all rows of the base-protocol commands + a seeded 10 % of the other rows, one symbolic value per row (ints: whole domain; bytes <= 2; str <= 1 code point; Time: documented range; Address/Float: 3 representatives; containers: first scalar member symbolic; lists: symbolic + one concrete element); undefined-command naming: 3 AVPs with a repeat and a grouped one",
          "thorough": "round trip of all rows"}
OUTSIDE = ["several symbolic attributes at once", "nesting > 2", "lists > 2 elements", "random subsets of attributes (covered: none, each single attribute, all, all-but-one)"]


# ----------------------------------------------------------------------------- class / row enumeration (from the live code, every run)
def _msg_classes():
    out, todo, seen = [], [DefinedMessage], set()
    while todo:
        c = todo.pop()
        for s in c.__subclasses__():
            if s not in seen:
                seen.add(s)
                todo.append(s)
                if getattr(s, "avp_def", ()) and isinstance(s.__dict__.get("avp_def", None), tuple):
                    out.append(s)
    return sorted(out, key=lambda c: (c.__module__, c.__name__))


def _containers():
    out = []
    for name in dir(G):
        c = getattr(G, name)
        if isinstance(c, type) and dataclasses.is_dataclass(c) and c.__module__ == G.__name__ and isinstance(getattr(c, "avp_def", None), tuple):
            out.append(c)
    return sorted(out, key=lambda c: c.__name__)


MSG = _msg_classes()
CONT = _containers()
CLASSES = {("m:" + c.__module__.split(".")[-1] + "." + c.__name__): c for c in MSG}
CLASSES.update({("g:" + c.__name__): c for c in CONT})


def rows_of(cls):
    return [d for d in cls.avp_def if isinstance(d, AvpGenDef)]


KNOWN_ROWS = {"c03_gx_row_without_container": ("CreditControlRequest", "access_network_charging_identifier_gx")}
# known finding c03_containers_without_additional_avps: exactly these grouped containers have no holder for undeclared AVPs (frozen list)
KNOWN_NOHOLDER = frozenset("""
    AccessNetworkInfoChange AccessTransferInformation AccumulatedCost AdditionalContentInformation AddressDomain AfCorrelationInformation
    AllocationRetentionPriority AnnouncementInformation AocCostInformation AocInformation AocService AocSubscriptionInformation ApnRateControl
    ApnRateControlDownlink ApnRateControlUplink ApplicationServerInformation BasicServiceCode CalledIdentityChange Cause CcMoney
    ChargingRuleInstall ChargingRuleRemove CostInformation CoverageInfo CpdtInformation CurrentTariff DcdInformation DefaultEpsBearerQos
    DestinationInterface EarlyMediaDescription EnhancedDiagnostics Envelope EventType ExperimentalResult FilterRule GrantedServiceUnit
    GsuPoolReference ImInformation ImsInformation IncrementalCost InterOperatorIdentifier IsupCause LcsClientId LcsClientName LcsInformation
    LcsRequestorId LocationInfo LocationType MbmsInformation MediaComponentDescription MediaSubComponent MessageBody MessageClass MmContentType
    MmsInformation MmtelInformation NextTariff NiddSubmission NniInformation OriginatorAddress OriginatorInterface OriginatorReceivedAddress
    ParticipantGroup Pc5FlowBitrates PocInformation PocUserRole ProSeDirectCommunicationReceptionDataContainer
    ProSeDirectCommunicationTransmissionDataContainer ProseInformation ProxyInfo PsFurnishChargingInformation PsInformation QosInformation
    RadioParameterSetInfo RanSecondaryRatUsageReport RateElement RealTimeTariffInformation RecipientAddress RecipientInfo
    RecipientReceivedAddress RedirectServer RelatedChangeConditionInformation RelatedTrigger RemainingBalance ScaleFactor ScsAsAddress
    SdpMediaComponent SdpTimestamps ServiceDataContainer ServiceGenericInformation ServiceParameterInfo ServiceSpecificInfo
    SmDeviceTriggerInformation SmsInformation SubscriptionId SupplementaryService TalkBurstExchange TariffInformation TimeQuotaMechanism
    TimeStamps TrafficDataVolumes TransmitterInfo Trigger TrunkGroupId Tunneling TwanUserLocationInfo UnitCost UnitValue UsedServiceUnit
    UserCsgInformation UserEquipmentInfo UserEquipmentInfoExtension UwanUserLocationInfo VariablePart VcsInformation VendorSpecificApplicationId
    VolteInformation WlanOperatorId
""".split())


def table_errors(cls, carve=()):
    """(a) every row denotes exactly one dictionary AVP (grouped iff it has a container class); no two rows share an AVP or an attribute"""
    errs = []
    skip = {KNOWN_ROWS[k] for k in carve if k in KNOWN_ROWS}
    seen_key, seen_attr = {}, {}
    for i, d in enumerate(rows_of(cls)):
        e = A.get_avp_dictionary_entry(d.avp_code, d.vendor_id)
        if e is None:
            errs.append("row %d %s: (%d, %d) not in the dictionary" % (i, d.attr_name, d.avp_code, d.vendor_id))
        else:
            if (d.type_class is not None) != issubclass(e["type"], AvpGrouped) and not (
                    (cls.__name__, d.attr_name) in skip and d.type_class is None):
                errs.append("row %d %s: type_class=%s but dictionary type %s" % (i, d.attr_name, getattr(d.type_class, "__name__", None), e["type"].__name__))
        k = (d.avp_code, d.vendor_id)
        if k in seen_key:
            errs.append("row %d %s: same AVP %r as row %d %s" % (i, d.attr_name, k, seen_key[k][0], seen_key[k][1]))
        seen_key.setdefault(k, (i, d.attr_name))
        if d.attr_name in seen_attr:
            errs.append("row %d: attribute %s declared twice (row %d)" % (i, d.attr_name, seen_attr[d.attr_name]))
        seen_attr.setdefault(d.attr_name, i)
    # every annotated (= declared) attribute has a row; list-annotated attributes are lists on a fresh instance; no default is a class
    ann = {}
    for kls in reversed(cls.__mro__):
        ann.update(getattr(kls, "__annotations__", {}))
    try:
        fresh = cls()
    except Exception as ex:
        errs.append("cannot be instantiated without arguments: %r" % (ex,))
        return errs
    if not (hasattr(fresh, "additional_avps") or hasattr(fresh, "_additional_avps")) and not (
            "c03_containers_without_additional_avps" in carve and cls.__name__ in KNOWN_NOHOLDER and cls in CONT):
        errs.append("no additional_avps holder: AVPs the class does not declare are dropped on decode instead of carried over")
    for attr, t in ann.items():
        if attr.startswith("_") or attr in ("avp_def", "code", "name", "header", "additional_avps"):
            continue
        ts = (t if isinstance(t, str) else getattr(t, "__name__", str(t))).replace(" ", "")
        if attr not in seen_attr:
            errs.append("attribute %s (%s) is declared but has no AVP definition" % (attr, ts))
            continue
        cur = getattr(fresh, attr, None)
        if ts.startswith("list[") and not isinstance(cur, list):
            errs.append("attribute %s is declared %s but is not a list on a fresh instance (repeated AVPs overwrite each other on decode)" % (attr, ts))
        if isinstance(cur, list) and not ts.lower().startswith("list["):
            errs.append("attribute %s is declared %s but is a list on a fresh instance (a scalar that is set decodes as a one-element list)" % (attr, ts))
        if isinstance(cur, type):
            errs.append("attribute %s defaults to the class %s itself" % (attr, cur.__name__))
    return errs


def table_probe(cname: str) -> bool:
    hx.begin()
    errs = table_errors(CLASSES[cname], P.get("carve", ()))
    return hx.check((cname,), (errs,), ([],), "attribute table of %s" % cname)


def repro_gx_row():
    """known finding: CreditControlRequest.access_network_charging_identifier_gx denotes a Grouped AVP but has no container class"""
    errs = [e for e in table_errors(CLASSES["m:credit_control.CreditControlRequest"]) if "access_network_charging_identifier_gx" in e]
    return bool(errs), "; ".join(errs)


def repro_noholder():
    """known finding: a container without additional_avps drops an undeclared sub-AVP on decode"""
    bad = []
    extra = ref_avp(0x00c0ffee, 99999, 0, b"keep")
    for name in sorted(KNOWN_NOHOLDER):
        cls = CLASSES.get("g:" + name)
        if cls is None:
            continue
        if _encode(_decode(cls, extra, False), False) != extra:
            bad.append(name)
    return bool(bad), "%d containers drop an undeclared sub-AVP (e.g. %s)" % (len(bad), ", ".join(bad[:3]))


def lemmas(tier, src):
    from engine import codec
    out = []
    nrows = 0
    carve = getattr(lemmas, "carve", ())
    for cname, cls in sorted(CLASSES.items()):
        errs = table_errors(cls, carve)
        nrows += len(rows_of(cls))
        r = {"id": "table/" + cname, "solver_checks": 0, "solver_time_s": 0, "detail": "finite table: enumerated, not solved (%d rows)" % len(rows_of(cls)),
             "verdict": "discharged" if not errs else "refuted"}
        if errs:
            r["model"] = errs[:4]
            r["replay"] = {"fn": "table_probe", "args": codec.enc((cname,)), "params": {"carve": list(carve)}}
        out.append(r)
    lemmas.rows = nrows
    return out


def extra_coverage(results, lemma_results):
    return {"table_classes_checked": len(lemma_results), "table_rows_checked": getattr(lemmas, "rows", 0),
            "table_note": "the table/<class> obligations are exhaustive enumeration of a finite table, not solver verdicts"}


# ----------------------------------------------------------------------------- type-directed values
ADDRS = [("10.1.2.3", b"\x00\x01\x0a\x01\x02\x03", (1, "10.1.2.3")), ("2001:db8::1", b"\x00\x02" + bytes.fromhex("20010db8000000000000000000000001"), (2, "2001:db8::1")),
         ("4178000", b"\x00\x08" + b"4178000", (8, "4178000"))]
FLOATS = [0.0, 1.5, -2.25]


def kind_of(T):
    if T in (AvpInteger32,):
        return "i32"
    if T is AvpInteger64:
        return "i64"
    if T is AvpUnsigned32:
        return "u32"
    if T is AvpUnsigned64:
        return "u64"
    if T is AvpOctetString:
        return "bytes"
    if T is AvpUtf8String:
        return "str"
    if T is AvpTime:
        return "time"
    if T is AvpAddress:
        return "addr"
    if T is AvpFloat32:
        return "f32"
    if T is AvpFloat64:
        return "f64"
    if issubclass(T, AvpGrouped):
        return "grouped"
    return "raw"


DOM = {"i32": (-(1 << 31), (1 << 31) - 1, 4), "i64": (-(1 << 63), (1 << 63) - 1, 8), "u32": (0, (1 << 32) - 1, 4), "u64": (0, (1 << 64) - 1, 8)}


def value_for(kind, iv, bv, sv, sel):
    """(python value to assign, expected payload, expected decoded value) ; sel is a small concrete selector"""
    if kind in DOM:
        lo, hi, n = DOM[kind]
        return iv, be(iv if iv >= 0 else iv + (1 << (8 * n)), n), iv
    if kind in ("bytes", "raw"):
        return bv, bv, bv
    if kind == "str":
        return sv, ref_utf8(sv), sv
    if kind == "time":
        return mk_dt(iv), be((iv + NTP_1900) % (1 << 32), 4), iv
    if kind == "addr":
        a = ADDRS[sel % 3]
        return a[0], a[1], a[2]
    if kind == "f32":
        f = FLOATS[sel % 3]
        return f, struct.pack("!f", f), f
    if kind == "f64":
        f = FLOATS[sel % 3]
        return f, struct.pack("!d", f), f
    raise KeyError(kind)


def concrete_value(kind, k):
    if kind in DOM:
        v = [7, 1, 0][k % 3]
        return value_for(kind, v, b"", "", 0)
    if kind in ("bytes", "raw"):
        return value_for(kind, 0, [b"xy", b"z", b""][k % 3], "", 0)
    if kind == "str":
        return value_for(kind, 0, b"", ["ab", "c", ""][k % 3], 0)
    if kind == "time":
        return value_for(kind, 1700000000 + k, b"", "", 0)
    return value_for(kind, 0, b"", "", k)


B64 = [0, 1, 2, 0x7fffffff, 0x80000000, 0xffffffff, 0x100000000, (1 << 63) - 1]


def in_domain(kind, iv, bv, sv):
    if kind == "u64":
        # 8-byte to_bytes/from_bytes compositions do not finish symbolically: boundary values here, the whole domain is C01's int_enc/int_dec
        return iv in B64 or iv in ((1 << 63), (1 << 64) - 2, (1 << 64) - 1)
    if kind == "i64":
        return iv in B64 or -iv in B64 or iv == -(1 << 63)
    if kind in DOM:
        return DOM[kind][0] <= iv <= DOM[kind][1]
    if kind == "time":
        return T_MIN <= iv <= T_MAX
    return True


def norm_decoded(kind, v):
    if kind == "time":
        return dt_secs(v)
    return v


# ----------------------------------------------------------------------------- (b) one row, round trip
def _mand(d, entry):
    return bool(entry.get("mandatory")) if d.is_mandatory is None else bool(d.is_mandatory)


def _first_scalar(cont):
    for d in rows_of(cont):
        e = A.get_avp_dictionary_entry(d.avp_code, d.vendor_id)
        if e is not None and d.type_class is None and kind_of(e["type"]) not in ("grouped",):
            return d, e
    return None, None


def _avps_of(obj, is_msg):
    return list(obj.avps) if is_msg else generate_avps_from_defs(obj)


def _decode(cls, wire, is_msg):
    if is_msg:
        return Message.from_bytes(wire)
    u = Unpacker(wire)
    avps = []
    while not u.is_done():
        avps.append(Avp.from_unpacker(u))
    o = cls()
    assign_attr_from_defs(o, avps)
    return o


def _encode(obj, is_msg):
    if is_msg:
        return obj.as_bytes()
    return b"".join(a.as_bytes() for a in generate_avps_from_defs(obj))


def row_rt(iv: int, bv: bytes, sv: str) -> bool:
    """
    pre: len(bv) <= 2 and len(sv) <= 1 and all(not (0xD800 <= ord(ch) <= 0xDFFF) for ch in sv)
    pre: in_domain(P["kind"], iv, bv, sv)
    post: _
    """
    hx.begin()
    cls = CLASSES[P["cls"]]
    is_msg = P["cls"].startswith("m:")
    d = rows_of(cls)[P["row"]]
    kind = P["kind"]
    inputs = (iv, bv, sv)
    entry = A.get_avp_dictionary_entry(d.avp_code, d.vendor_id)
    try:
        base = [(a.code, a.vendor_id) for a in _avps_of(cls(), is_msg)]
        obj = cls()
        is_list = isinstance(getattr(obj, d.attr_name, None), list)
        if kind == "grouped":
            cont = d.type_class
            md, me = _first_scalar(cont)
            member = cont()
            if md is not None:
                mk = kind_of(me["type"])
                if not in_domain(mk, iv, bv, sv):
                    return hx.holds(inputs, True, ("member domain",), "")
                mv, mpl, mdec = value_for(mk, iv, bv, sv, P["sel"])
                m_is_list = isinstance(getattr(member, md.attr_name, None), list)
                setattr(member, md.attr_name, [mv] if m_is_list else mv)
                mine_b = ref_avp(md.avp_code, md.vendor_id, 0x40 if _mand(md, me) else 0, mpl)
                # the container's own defaults (some containers pre-fill nested members) stay where their rows put them
                defaults = {(a.code, a.vendor_id): a.as_bytes() for a in generate_avps_from_defs(cont())}
                inner = b""
                for rd in rows_of(cont):
                    if rd is md:
                        inner += mine_b
                    elif (rd.avp_code, rd.vendor_id) in defaults and (rd.avp_code, rd.vendor_id) != (md.avp_code, md.vendor_id):
                        inner += defaults[(rd.avp_code, rd.vendor_id)]
            else:
                inner = b"".join(a.as_bytes() for a in generate_avps_from_defs(cont()))
            value = member
            exp_payloads = [inner]
        else:
            v, pl, dec = value_for(kind, iv, bv, sv, P["sel"])
            value = v
            exp_payloads = [pl]
        if is_list:
            if kind == "grouped":
                setattr(obj, d.attr_name, [value])
            else:
                v2, pl2, dec2 = concrete_value(kind, P["sel"] + 1)
                setattr(obj, d.attr_name, [value, v2])
                exp_payloads.append(pl2)
        else:
            setattr(obj, d.attr_name, value)
        avps = _avps_of(obj, is_msg)
        mine = [(a.is_mandatory, a.is_vendor, a.payload) for a in avps if (a.code, a.vendor_id) == (d.avp_code, d.vendor_id)]
        others = [(a.code, a.vendor_id) for a in avps if (a.code, a.vendor_id) != (d.avp_code, d.vendor_id)]
        wire = _encode(obj, is_msg)
        back = _decode(cls, wire, is_msg)
        got = getattr(back, d.attr_name)
        if kind == "grouped":
            items = got if isinstance(got, list) else [got]
            gv = []
            for it in items:
                if md is None:
                    gv.append(type(it).__name__)
                else:
                    x = getattr(it, md.attr_name)
                    x = x[0] if isinstance(x, list) and x else x
                    gv.append((type(it).__name__, norm_decoded(mk, x)))
            exp_back = [cont.__name__] if md is None else [(cont.__name__, mdec)]
        else:
            items = got if isinstance(got, list) else [got]
            gv = [norm_decoded(kind, x) for x in items]
            exp_back = [dec] + ([dec2] if is_list else [])
        same_cls = type(back) is cls
        again = _encode(back, is_msg)
        obs = (mine, sorted(others), gv, same_cls, again == wire)
    except Exception as e:
        return hx.fail(inputs, "raised %s: %s" % (type(e).__name__, str(e)[:80]))
    m = _mand(d, entry)
    exp = ([(m, d.vendor_id != 0, p) for p in exp_payloads], sorted(k for k in base if k != (d.avp_code, d.vendor_id)), exp_back, True, True)
    return hx.check(inputs, obs, exp, "attribute %s.%s -> AVP (%d, %d) -> attribute" % (P["cls"], d.attr_name, d.avp_code, d.vendor_id))


def carry_over(code: int, flags: int, bv: bytes) -> bool:
    """
    pre: code == P["code"] and 0 <= flags <= 3 and len(bv) == 4
    post: _
    """
    hx.begin()
    cls = CLASSES[P["cls"]]
    is_msg = P["cls"].startswith("m:")
    inputs = (code, flags, bv)
    code = P["code"]            # concrete: the attribute lookup formats "<code>-<vendor>" keys
    try:
        # an AVP the class cannot declare (vendor 99999 appears in no table), M/P bits symbolic
        extra = ref_avp(code, P.get("vendor", 99999), flags * 0x20, bv)
        obj = cls()
        md, me = _first_scalar(cls)
        if md is not None:
            mv, mpl, mdec = concrete_value(kind_of(me["type"]), 1)
            setattr(obj, md.attr_name, [mv] if isinstance(getattr(obj, md.attr_name, None), list) else mv)
        own = _encode(obj, is_msg)
        if is_msg:
            ln = len(own) + len(extra)
            wire = own[:1] + bytes([ln // 65536, (ln // 256) % 256, ln % 256]) + own[4:] + extra
        else:
            wire = own + extra
        back = _decode(cls, wire, is_msg)
        again = _encode(back, is_msg)
        obs = (type(back) is cls, again == wire)
    except Exception as e:
        return hx.fail(inputs, "raised %s: %s" % (type(e).__name__, str(e)[:80]))
    return hx.check(inputs, obs, (True, True), "an AVP that %s does not declare is carried over unchanged by decode + encode" % P["cls"])


# ----------------------------------------------------------------------------- (c) all attributes at once, one omitted
def _set_all(obj, omit, depth=0):
    """type-directed concrete values for every row except row index `omit`; returns the expected (code, vendor) multiset"""
    exp = []
    for i, d in enumerate(rows_of(type(obj))):
        if i == omit and depth == 0:
            # left untouched: a class default (if any) stays, otherwise the AVP is absent
            cur = getattr(obj, d.attr_name, None)
            if cur not in (None, []):
                exp.extend([(d.avp_code, d.vendor_id)] * (len(cur) if isinstance(cur, list) else 1))
            continue
        e = A.get_avp_dictionary_entry(d.avp_code, d.vendor_id)
        if e is None:
            continue
        k = kind_of(e["type"])
        cur = getattr(obj, d.attr_name, None)
        if k == "grouped":
            if d.type_class is None:
                continue
            v = d.type_class()
            if depth < 1:
                _set_all(v, -1, depth + 1)
        else:
            v = concrete_value(k, i)[0]
        setattr(obj, d.attr_name, [v] if isinstance(cur, list) else v)
        exp.append((d.avp_code, d.vendor_id))
    return exp


def class_all(omit: int) -> bool:
    """
    pre: -1 <= omit < P["nrows"]
    post: _
    """
    hx.begin()
    cls = CLASSES[P["cls"]]
    is_msg = P["cls"].startswith("m:")
    om = hx.concretize_range(omit, -1, P["nrows"])
    try:
        obj = cls()
        exp = _set_all(obj, om)
        avps = _avps_of(obj, is_msg)
        got = sorted((a.code, a.vendor_id) for a in avps)
        wire = _encode(obj, is_msg)
        back = _decode(cls, wire, is_msg)
        again = _encode(back, is_msg)
        obs = (got, again == wire, type(back) is cls)
    except Exception as e:
        return hx.fail((omit,), "raised %s: %s" % (type(e).__name__, str(e)[:80]))
    return hx.check((omit,), obs, (sorted(exp), True, True), "all attributes set (one omitted): exactly one AVP per set attribute, nothing for the unset one; encode-decode-encode stable")


# ----------------------------------------------------------------------------- undefined commands: attribute naming
# ----------------------------------------------------------------------------- (d) a message that is rendered, changed in place, rendered again
def _inplace_targets(cls):
    """(kind, row) pairs the idiom 'change in place' applies to: list attributes of scalars, and container attributes"""
    out = []
    fresh = cls()
    for i, d in enumerate(rows_of(cls)):
        e = A.get_avp_dictionary_entry(d.avp_code, d.vendor_id)
        if e is None:
            continue
        k = kind_of(e["type"])
        cur = getattr(fresh, d.attr_name, None)
        if isinstance(cur, list) and k != "grouped":
            out.append(("list", i, d, k))
        elif k == "grouped" and d.type_class is not None and not isinstance(cur, list) and _first_scalar(d.type_class)[0] is not None:
            out.append(("cont", i, d, k))
    return out


def rerender(t: int, via: int) -> bool:
    """
    pre: 0 <= t < P["ntargets"] and 0 <= via <= 2
    post: _
    """
    hx.begin()
    cls = CLASSES[P["cls"]]
    targets = _inplace_targets(cls)
    what, i, d, k = targets[hx.concretize_range(t, 0, len(targets))]
    how = hx.concretize_range(via, 0, 3)        # the first rendering: as_bytes() / .avps / find_avps()
    inputs = (t, via)
    try:
        with hx.untraced():
            def build(final):
                o = cls()
                _set_all(o, -1)
                if what == "list":
                    v0, v1 = concrete_value(k, 0)[0], concrete_value(k, 1)[0]
                    setattr(o, d.attr_name, [v0, v1] if final else [v0])
                else:
                    c = d.type_class()
                    md, me = _first_scalar(d.type_class)
                    mk = kind_of(me["type"])
                    cur = getattr(c, md.attr_name, None)
                    val = concrete_value(mk, 1 if final else 0)[0]
                    setattr(c, md.attr_name, [val] if isinstance(cur, list) else val)
                    setattr(o, d.attr_name, c)
                return o
            o = build(False)
            if how == 0:
                o.as_bytes()
            elif how == 1:
                list(o.avps)
            else:
                o.find_avps((d.avp_code, d.vendor_id))
            # the change in place (documented idioms: msg.route_record.append(x), msg.<container>.<field> = y)
            if what == "list":
                getattr(o, d.attr_name).append(concrete_value(k, 1)[0])
            else:
                c = getattr(o, d.attr_name)
                md, me = _first_scalar(d.type_class)
                mk = kind_of(me["type"])
                cur = getattr(c, md.attr_name, None)
                val = concrete_value(mk, 1)[0]
                if isinstance(cur, list):
                    cur[0] = val
                else:
                    setattr(c, md.attr_name, val)
            second = o.as_bytes()
            ref = build(True).as_bytes()
            obs = (second == ref, len(second))
            exp = (True, len(ref))
    except Exception as e:
        return hx.fail(inputs, "raised %s: %s" % (type(e).__name__, str(e)[:80]))
    return hx.check(inputs, obs, exp, "a message rendered once, then changed in place (%s %s), must encode like a message built with the final values" % (what, d.attr_name))


def undefined_naming(v1: int, v2: int, b3: bytes) -> bool:
    """
    pre: 0 <= v1 <= 0xffffffff and 0 <= v2 <= 0xffffffff and len(b3) <= 2
    post: _
    """
    hx.begin()
    inputs = (v1, v2, b3)
    # Origin-State-Id twice (list, wire order), Subscription-Id (grouped) with Subscription-Id-Type inside, Class once, an undeclared vendor AVP
    body = (ref_avp(278, 0, 0x40, be(v1, 4)) + ref_avp(443, 0, 0x40, ref_avp(450, 0, 0x40, be(1, 4)) + ref_avp(444, 0, 0x40, b"id")) +
            ref_avp(278, 0, 0x40, be(v2, 4)) + ref_avp(25, 0, 0x40, b3))
    from harness.C02 import ref_header
    wire = ref_header(1, 20 + len(body), 0x80, 999, 4, 5, 6) + body
    try:
        m = Message.from_bytes(wire)
        sub = m.subscription_id
        obs = (type(m).__name__, m.origin_state_id, getattr(m, "class"), type(sub).__name__, sub.subscription_id_type, sub.subscription_id_data,
               hasattr(m, "Origin_State_Id"), hasattr(m, "origin-state-id"))
    except Exception as e:
        return hx.fail(inputs, "raised %s: %s" % (type(e).__name__, str(e)[:80]))
    exp = ("UndefinedMessage", [v1, v2], b3, "UndefinedGroupedAvp", 1, "id", False, False)
    return hx.check(inputs, obs, exp, "undefined command: lower-case underscore names, repeats as lists in wire order, grouped as nested object")


def setup(p):
    if hx.SYMBOLIC:
        from engine import stubs
        stubs.install_datetime_double()


BASE_MODULES = ("capabilities_exchange", "device_watchdog", "disconnect_peer", "re_auth", "session_termination", "abort_session", "accounting")


def all_rows():
    out = []
    for cname, cls in sorted(CLASSES.items()):
        for i, d in enumerate(rows_of(cls)):
            e = A.get_avp_dictionary_entry(d.avp_code, d.vendor_id)
            if e is None:
                continue                     # reported by the table check
            k = kind_of(e["type"])
            if (k == "grouped") != (d.type_class is not None):
                continue                     # reported by the table check
            out.append((cname, i, d.attr_name, k))
    return out


def specs(tier, seed, carve):
    import random
    lemmas.carve = tuple(carve)
    q = tier == "quick"
    rnd = random.Random(seed)
    rows = all_rows()
    if q:
        base = [r for r in rows if r[0].startswith("m:") and r[0][2:].split(".")[0] in BASE_MODULES]
        rest = [r for r in rows if r not in set(base)]
        rows = base + rnd.sample(rest, max(1, len(rest) // 10))
    out = []
    for (cname, i, attr, k) in rows:
        out.append(dict(id="row/%s/%d-%s" % (cname, i, attr), fn="row_rt", params={"cls": cname, "row": i, "kind": k, "sel": rnd.randrange(3)},
                        timeout=60 if k not in ("u64", "i64") else 120, path_timeout=20,
                        bound="row %d (%s) of %s: one symbolic %s value" % (i, attr, cname, k)))
    names = sorted(CLASSES)
    if q:
        small = [n_ for n_ in names if len(rows_of(CLASSES[n_])) <= 25]
        names = [n_ for n_ in small if n_.startswith("m:") and n_[2:].split(".")[0] in ("capabilities_exchange", "device_watchdog", "disconnect_peer")] + rnd.sample(small, 14)
    for n_ in sorted(set(names)):
        nr = len(rows_of(CLASSES[n_]))
        out.append(dict(id="class_all/" + n_, fn="class_all", params={"cls": n_, "nrows": nr}, timeout=240 if q else 2400,
                        bound="%s: all %d attributes set to type-directed values at once, and with each single attribute left untouched" % (n_, nr)))
    cn = [n_ for n_ in sorted(CLASSES) if not ("c03_containers_without_additional_avps" in carve and n_[2:] in KNOWN_NOHOLDER and n_.startswith("g:"))]
    if q:
        cn = rnd.sample(cn, 24)
    for n_ in cn:
        out.append(dict(id="carry_over/" + n_, fn="carry_over", params={"cls": n_, "code": rnd.randrange(1, 1 << 32)}, timeout=60,
                        bound="%s: one undeclared AVP (a seeded 32-bit code, vendor 99999, M/P bits symbolic, 4 symbolic payload bytes) after the class's own AVPs" % n_))
    # the same with an undeclared AVP whose *code* equals that of a declared attribute under another vendor (another AVP altogether)
    for n_ in cn:
        rws = rows_of(CLASSES[n_])
        declared = {(d.avp_code, d.vendor_id) for d in rws}
        cand = [(d.avp_code, 99999 if not d.vendor_id else 0) for d in rws]
        cand = [c for c in cand if c not in declared]
        if not cand:
            continue
        for (code_, vend_) in (rnd.sample(cand, min(2, len(cand))) if q else cand[:6]):
            out.append(dict(id="carry_over_collide/%s/%d-%d" % (n_, code_, vend_), fn="carry_over", params={"cls": n_, "code": code_, "vendor": vend_}, timeout=60,
                            bound="%s: one undeclared AVP with the code %d of a declared attribute but vendor %d (M/P bits symbolic, 4 symbolic payload bytes) after the class's own AVPs" % (n_, code_, vend_)))
    mnames = [n_ for n_ in sorted(CLASSES) if n_.startswith("m:") and _inplace_targets(CLASSES[n_])]
    for n_ in (rnd.sample(mnames, 16) if q else mnames):
        nt = len(_inplace_targets(CLASSES[n_]))
        out.append(dict(id="rerender/" + n_, fn="rerender", params={"cls": n_, "ntargets": nt}, timeout=300,
                        bound="%s: each of its %d list / container attributes changed in place after a first rendering through as_bytes(), .avps or find_avps()" % (n_, nt)))
    out.append(dict(id="undefined_naming", fn="undefined_naming", params={}, timeout=120, bound="undefined command with a repeated AVP (two symbolic Unsigned32), a grouped AVP and a symbolic OctetString"))
    return out
