"""C20 - answers built from requests mirror the header and use the paired answer class."""
from engine import hx
import diameter.message.commands as cmds
from diameter.message import Message, MessageHeader, DefinedMessage, UndefinedMessage

PROPERTY = "C20"
P = {}
FUNCTIONS_ENCODED = ["Message.to_answer", "MessageHeader.__init__ / flag setters", "__post_init__ of every command class (flag normalisation)",
                     "type_factory of every typed command", "Node._generate_answer", "Application.generate_answer"]
STUBS = ["node environment stubs (no sockets/threads started; virtual clock) for the generate_answer obligations"]
ASSUMPTIONS = ["'keeps the proxiable bit' is evaluated against the request object at the moment to_answer is called - flags given at construction (normalised by typed classes) or set afterwards",
               "reference pairing is what the command registry's type_factory yields for the same code with R = 0 - not to_answer's own name walk"]
BOUNDS = {"quick": "every message class (typed request/answer/base, untyped, generic) x all versions, all 256 flag octets, all 24-bit codes (generic classes), all 32-bit application/hop-by-hop/end-to-end ids; generate_answer: Session-Id / Proxy-Info presence symbolic",
          "thorough": "same"}
OUTSIDE = ["AVP content of requests beyond Session-Id/Proxy-Info presence"]


def _all_classes():
    seen, out, todo = set(), [], [Message]
    while todo:
        c = todo.pop()
        if c in seen:
            continue
        seen.add(c)
        out.append(c)
        todo.extend(c.__subclasses__())
    out = [c for c in out if c.__module__.startswith("diameter.message")]
    return sorted(out, key=lambda c: (c.__module__, c.__name__))


CLASSES = {c.__module__ + "." + c.__name__: c for c in _all_classes()}
REG = dict(cmds.all_commands)


def _paired_answer(cls):
    """reference: the registry's own dispatch for this command code with the R bit cleared"""
    code = getattr(cls, "code", 0)
    base = REG.get(code)
    if base is None or not issubclass(cls, base):
        return None
    t = base.type_factory(MessageHeader(command_code=code, command_flags=0))
    return t


def to_answer(ver: int, flags: int, code: int, app: int, hbh: int, e2e: int, late: bool) -> bool:
    """
    pre: 0 <= ver <= 255 and 0 <= flags <= 255 and 0 <= code <= 0xffffff
    pre: 0 <= app <= 0xffffffff and 0 <= hbh <= 0xffffffff and 0 <= e2e <= 0xffffffff
    post: _
    """
    hx.begin()
    cls = CLASSES[P["cls"]]
    inputs = (ver, flags, code, app, hbh, e2e, late)
    try:
        if late:
            # the flag octet is set on the finished request object (e.g. a user clearing the P bit before sending)
            req = cls(MessageHeader(ver, 0, 0, code, app, hbh, e2e))
            req.header.command_flags = flags
        else:
            req = cls(MessageHeader(ver, 0, flags, code, app, hbh, e2e))
        rh = req.header
        before = (rh.version, rh.length, rh.command_flags, rh.command_code, rh.application_id, rh.hop_by_hop_identifier,
                  rh.end_to_end_identifier, len(req._avps))
        ans = req.to_answer()
        ah = ans.header
        after = (rh.version, rh.length, rh.command_flags, rh.command_code, rh.application_id, rh.hop_by_hop_identifier,
                 rh.end_to_end_identifier, len(req._avps))
        obs = (ah.version, ah.command_code, ah.application_id, ah.hop_by_hop_identifier, ah.end_to_end_identifier, ah.command_flags,
               ans is not req, ah is not rh)
    except Exception as e:
        return hx.fail(inputs, "raised " + type(e).__name__)
    exp = (before[0], before[3], before[4], before[5], before[6], (before[2] // 64) % 2 * 64, True, True)
    if not (before == after):
        return hx.check(inputs, after, before, "to_answer modified the request")
    # class pairing
    name = cls.__name__
    paired = _paired_answer(cls)
    tn = type(ans).__name__
    if name.endswith("Request") and paired is not None and paired is not cls:
        okc = type(ans) is paired
    elif name.endswith("Request"):
        okc = type(ans) is Message             # no typed answer: the generic message
    else:
        # bases, untyped commands, generic classes (and answers): the command's own class, or its answer class
        okc = type(ans) is cls or (paired is not None and type(ans) is paired)
    if not okc:
        return hx.check(inputs, (tn,), ((paired or Message).__name__,), "answer class is not the command's answer class")
    if isinstance(ans, DefinedMessage) and type(ans) is not REG.get(getattr(type(ans), "code", -1)) and "c20_typed_answer_forces_p" in P.get("carve", ()):
        # known finding: typed answer classes force the P bit their ABNF prescribes instead of keeping the request's
        obs = obs[:5] + (obs[5] - obs[5] % 128 // 64 * 64,) + obs[6:]
        exp = exp[:5] + (0,) + exp[6:]
    return hx.check(inputs, obs, exp, "answer header: version/code/app/ids copied, P kept, R/E/T cleared")


def generate_answer(with_session: bool, with_proxy: bool, via_app: bool, kind: int, hi: int, flags: int) -> bool:
    """
    pre: 0 <= kind <= 2 and 0 <= hi < 5 and 0 <= flags <= 255
    post: _
    """
    hx.begin()
    from harness import bench as B
    from diameter.message.avp.grouped import ProxyInfo
    k = hx.concretize_range(kind, 0, 3)
    hbh = B.ID_POOL[hx.concretize_range(hi, 0, 5)]
    inputs = (with_session, with_proxy, via_app, kind, hi, flags)
    try:
        b = B.Bench(n_peers=1)
        n, app = b.node, b.apps[0]
        c, s = b.make_ready(b.peers[0])
        if k == 0:
            req = B.ccr(B.PEER_HOSTS[0], hbh, 77)
        elif k == 1:
            req = B.dwr(B.PEER_HOSTS[0], hbh, 77)
        else:
            req = B.Message()
            req.header.command_code = 999
            req.header.hop_by_hop_identifier = hbh
            req.header.end_to_end_identifier = 77
        req.header.command_flags = flags
        if k == 0:
            req.session_id = "sess;1" if with_session else None
            if with_proxy:
                pi = ProxyInfo()
                pi.proxy_host = b"proxy.realm"
                pi.proxy_state = b"st"
                req.proxy_info = [pi]
        else:
            if with_session:
                req.session_id = "sess;1"           # plain attribute on a message without the typed field
            if with_proxy and k == 2:
                req.proxy_info = [ProxyInfo()]      # an untyped request exposes a received Proxy-Info as an attribute, with or without Session-Id
        before = req.header.command_flags
        ans = app.generate_answer(req, result_code=2001) if via_app else n._generate_answer(c, req)
        h = ans.header
        sid = getattr(ans, "session_id", None)
        pinfo = getattr(ans, "proxy_info", None)
        on_wire = sorted(a.code for a in ans.avps if a.code in (263, 264, 296))       # what the encoded answer carries
        obs = (ans.origin_host, ans.origin_realm, sid, bool(pinfo), h.hop_by_hop_identifier, h.end_to_end_identifier, h.command_code,
               h.is_request, h.is_error, h.is_retransmit, req.header.command_flags == before, on_wire)
    except Exception as e:
        return hx.fail(inputs, "raised %s: %s" % (type(e).__name__, str(e)[:80]))
    exp_sid = "sess;1" if with_session else None
    exp_wire = ([263] if (with_session and k != 1) else []) + [264, 296]
    if k == 2 and "c20_untyped_generated_answer_empty" in P.get("carve", ()):
        exp_wire = []                # known finding: only python attributes on the generic answer
    exp = (B.NODE_HOST.encode(), B.REALM.encode(), exp_sid, bool(with_proxy and k in (0, 2)), hbh, 77, req.header.command_code, False, False, False, True, exp_wire)
    return hx.check(inputs, obs, exp, "generated answer: local Origin-Host/Realm, Session-Id and Proxy-Info copied (also as encoded), header mirrored, R/E/T cleared")


def repro_untyped_generated_answer():
    """known finding: the answer generated for a request without python answer class is empty on the wire"""
    from harness import bench as B
    b = B.Bench(n_peers=1)
    c, s = b.make_ready(b.peers[0])
    req = B.Message()
    req.header.command_code = 999
    req.header.is_request = True
    ans = b.node._generate_answer(c, req)
    ans.result_code = 3007
    return len(ans.as_bytes()) == 20, "Node._generate_answer for command 999 + result_code encodes %d bytes (header only)" % len(ans.as_bytes())


BASE_CMDS = ("CapabilitiesExchangeRequest", "DeviceWatchdogRequest", "DisconnectPeerRequest")     # no Session-Id / Proxy-Info in their ABNF


def generate_answer_wire(with_session: bool, with_proxy: bool, via_app: bool, flags: int, hbh: int, e2e: int) -> bool:
    """
    pre: 0 <= flags <= 3 and 0 <= hbh <= 0xffffffff and 0 <= e2e <= 0xffffffff
    post: _
    """
    hx.begin()
    from harness import bench as B
    from harness.C01 import ref_avp, be
    cls = CLASSES[P["cls"]]
    inputs = (with_session, with_proxy, via_app, flags, hbh, e2e)
    wflags = [0x80, 0xc0, 0xb0, 0xf0][hx.concretize_range(flags, 0, 4)]     # on the wire: R, with/without P, with/without E+T
    base_cmd = cls.__name__ in BASE_CMDS
    try:
        b = B.Bench(n_peers=1)
        n, app = b.node, b.apps[0]
        c, s = b.make_ready(b.peers[0])
        # the request as it arrives: (concrete) wire bytes decoded by the library into the command's request class;
        # flag octet and identifiers are then made symbolic on the decoded object
        sid = b"sess;1;2"
        pinfo = ref_avp(284, 0, 0x40, ref_avp(280, 0, 0x40, b"proxy.realm") + ref_avp(33, 0, 0x40, b"st"))
        body = b""
        if with_session and not base_cmd:
            body += ref_avp(263, 0, 0x40, sid)
        body += ref_avp(264, 0, 0x40, B.PEER_HOSTS[0].encode()) + ref_avp(296, 0, 0x40, B.REALM.encode()) + ref_avp(283, 0, 0x40, B.REALM.encode())
        if with_proxy and not base_cmd:
            body += pinfo
        code = cls.code
        wire = bytes([1]) + be(20 + len(body), 3) + bytes([wflags]) + be(code, 3) + be(4, 4) + be(5, 4) + be(77, 4) + body
        req = B.Message.from_bytes(wire)
        req.header.hop_by_hop_identifier = hbh
        req.header.end_to_end_identifier = e2e
        pbit = req.header.is_proxyable
        ans = app.generate_answer(req, result_code=2001) if via_app else n._generate_answer(c, req)
        avps = list(ans.avps)
        aw = ans.as_bytes()
        found = lambda cd: [a.payload for a in avps if a.code == cd and a.vendor_id == 0]
        obs = (type(req).__name__, found(264), found(296), found(263), [a.as_bytes() for a in avps if a.code == 284],
               aw[4], aw[5:8], aw[12:16], aw[16:20], len(aw) == 20 + sum(len(a.as_bytes()) for a in avps))
    except Exception as e:
        return hx.fail(inputs, "raised %s: %s" % (type(e).__name__, str(e)[:80]))
    exp = (cls.__name__, [B.NODE_HOST.encode()], [B.REALM.encode()], [sid] if (with_session and not base_cmd) else [],
           [pinfo] if (with_proxy and not base_cmd) else [], 0x40 if pbit else 0, be(code, 3), be(hbh, 4), be(e2e, 4), True)
    return hx.check(inputs, obs, exp, "answer generated for a received %s, as encoded: local Origin-Host/Realm, Session-Id and Proxy-Info of the request, header mirrored" % cls.__name__)


def repro_typed_answer_forces_p():
    """known finding: the answer of a typed command does not keep a P bit cleared on the request object"""
    from diameter.message.commands import CreditControlRequest
    r = CreditControlRequest()
    r.header.is_proxyable = False
    a = r.to_answer()
    return a.header.is_proxyable, "CreditControlRequest with P cleared -> %s with P %s" % (type(a).__name__, a.header.is_proxyable)


def to_answer_sequence(flags1: int, flags2: int, order: bool) -> bool:
    """
    pre: 0 <= flags1 <= 255 and 0 <= flags2 <= 255
    post: _
    """
    hx.begin()
    names = P["classes"]
    seq = list(names) if not order else list(reversed(names))
    inputs = (flags1, flags2, order)
    try:
        got = []
        for nm, fl in zip(seq, (flags1, flags2)):
            cls = CLASSES[nm]
            req = cls(MessageHeader(1, 0, fl, getattr(cls, "code", 0), 4, 5, 6))
            pbit = req.header.is_proxyable
            ans = req.to_answer()
            paired = _paired_answer(cls)
            if cls.__name__.endswith("Request") and paired is not None and paired is not cls:
                okc = type(ans) is paired
            else:
                okc = type(ans) is cls or (paired is not None and type(ans) is paired)
            got.append((okc, ans.header.is_proxyable == pbit, ans.header.is_request, ans.header.command_code == req.header.command_code))
    except Exception as e:
        return hx.fail(inputs, "raised " + type(e).__name__)
    return hx.check(inputs, got, [(True, True, False, True)] * len(seq), "answer class / P bit must not depend on which other class of the same command was answered before")


def specs(tier, seed, carve):
    out = []
    for name in sorted(CLASSES):
        out.append(dict(id="to_answer/" + name.replace("diameter.message.", ""), fn="to_answer", params={"cls": name}, timeout=60,
                        bound="all header values (8-bit version/flags, 24-bit code, 32-bit ids) for class " + name))
    bycode = {}
    for name, cls in CLASSES.items():
        if getattr(cls, "code", 0) and cls.__name__.endswith("Request"):
            base = REG.get(cls.code)
            if base is not None and base is not cls:
                bname = base.__module__ + "." + base.__name__
                if bname in CLASSES:
                    bycode[cls.code] = [bname, name]
    for code, pair in sorted(bycode.items()):
        out.append(dict(id="to_answer_sequence/%d" % code, fn="to_answer_sequence", params={"classes": pair}, timeout=120,
                        bound="command %d: the typed base class (as produced by a plain decode) and the typed request answered one after the other in one process, both orders, all flag octets" % code))
    for name, cls in sorted(CLASSES.items()):
        if cls.__name__.endswith("Request") and getattr(cls, "code", 0) and REG.get(cls.code) is not None and issubclass(cls, REG[cls.code]):
            out.append(dict(id="generate_answer_wire/" + name.replace("diameter.message.commands.", ""), fn="generate_answer_wire", params={"cls": name}, timeout=300,
                            bound="a received %s (decoded from wire bytes with P and E+T set or not; then any hop-by-hop / end-to-end id; Session-Id / Proxy-Info present or not) answered through Node._generate_answer and Application.generate_answer; the answer is observed as encoded" % cls.__name__))
    out.append(dict(id="generate_answer", fn="generate_answer", params={}, timeout=600,
                    bound="Node._generate_answer and Application.generate_answer on a typed application request, a base-protocol request and an untyped request; Session-Id / Proxy-Info presence symbolic; all 256 flag octets; ids from the pool"))
    return out


# ---------------------------------------------------------------------------------------------------------------------
# wire-level histories with this property's monitor (harness/uni.py): bytes in, bytes out, reference model of the far ends
from typing import List as _List  # noqa: E402
from harness import uni as U  # noqa: E402


def uni_history(ev: _List[int]) -> bool:
    """
    pre: len(ev) == P["depth"] and all(0 <= e < len(U.EVENTS) for e in ev)
    pre: all(ev[i] == P["prefix"][i] for i in range(len(P["prefix"])))
    post: _
    """
    return U.history_body(ev, P)


_own_specs = specs


def specs(tier, seed, carve):  # noqa: F811
    return _own_specs(tier, seed, carve) + U.specs(PROPERTY, tier, seed)


FUNCTIONS_ENCODED = list(FUNCTIONS_ENCODED) + U.FUNCTIONS
BOUNDS = {k: v + "; " + U.BOUNDS[k] for k, v in BOUNDS.items()}
OUTSIDE = list(OUTSIDE) + U.OUTSIDE
