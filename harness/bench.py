"""Node bench shared by the node-level harnesses (C05..C20): a real Node built through its public API on the
virtual world of engine/env.py; connections created by the real _add_peer_connection / _connect_to_peer; messages
injected through the real PeerConnection.__dispatch_message (the CONNECTED gate is in the loop) and
Node._receive_message; output observed as the Message objects queued on the connection."""
from engine import hx
from engine.env import WORLD, VSock, drain, EndIter  # noqa: F401

WORLD.install()
hx.RESETTERS.append(WORLD.reset)

from diameter.node import Node  # noqa: E402
from diameter.node.peer import *  # noqa: E402,F401,F403
from diameter.node.peer import PeerConnection, Peer  # noqa: E402
from diameter.node.application import Application, ThreadingApplication, SimpleThreadingApplication  # noqa: E402,F401
from diameter.node.node import NotRoutable  # noqa: E402,F401
from diameter.message import Message, MessageHeader, constants  # noqa: E402,F401
from diameter.message.commands import *  # noqa: E402,F401,F403
from diameter.message.commands import (CapabilitiesExchangeRequest, CapabilitiesExchangeAnswer, DeviceWatchdogRequest,  # noqa: E402
                                       DeviceWatchdogAnswer, DisconnectPeerRequest, DisconnectPeerAnswer,
                                       CreditControlRequest, CreditControlAnswer, AccountingRequest, AccountingAnswer)

NODE_HOST, REALM = "node.local.realm", "local.realm"
PEER_HOSTS = ["peer1.local.realm", "peer2.local.realm", "peer3.local.realm"]
ID_POOL = [1, 2, 0x10001, 0x01000001, 0xffffffff]     # equal / distinct / truncation-colliding ids (data-independence assumption)


class RecApp(Application):
    """records what the node hands to the application"""

    def __init__(self, *a, **k):
        super().__init__(*a, **k)
        self.requests = []
        self.answers = []
        self.raise_in_handler = False
        self.sync_answer = None          # None | "rc" | "no_rc": answer from inside the handler (with / without a Result-Code)

    def handle_request(self, m):
        self.requests.append(m)
        if self.sync_answer:
            self.send_answer(self.generate_answer(m, result_code=2001 if self.sync_answer == "rc" else None))
        if self.raise_in_handler:
            raise RuntimeError("handler failed")

    def handle_answer(self, m):
        self.answers.append(m)
        if self.raise_in_handler:
            raise RuntimeError("answer handler failed")


def cut_statistics(on=True):
    """statistics counters key dicts by the clock second and use float division: with a symbolic clock/result code they
    realise the value (per-value paths).  They are not part of the properties checked on this bench (C19 runs with them)."""
    from diameter.node.peer import PeerStats
    if on:
        if not hasattr(PeerStats, "_orig_methods"):
            PeerStats._orig_methods = (PeerStats.add_received_req, PeerStats.add_processed_req_time, PeerStats.add_sent_result_code)
        PeerStats.add_received_req = lambda self: None
        PeerStats.add_processed_req_time = lambda self, name, t: None
        PeerStats.add_sent_result_code = lambda self, rc: None
    elif hasattr(PeerStats, "_orig_methods"):
        PeerStats.add_received_req, PeerStats.add_processed_req_time, PeerStats.add_sent_result_code = PeerStats._orig_methods


class SelfDeadlock(RuntimeError):
    pass


class OneThreadLock:
    """threading.Lock double for benches that run every thread body as a plain call: acquiring it while it is held can
    only be the same flow of control taking a non-reentrant lock twice - a thread that would block for ever"""

    def __init__(self):
        self.held = False

    def acquire(self, blocking=True, timeout=-1):
        if self.held:
            raise SelfDeadlock("non-reentrant lock taken twice by the same thread: it would block for ever")
        self.held = True
        return True

    def release(self):
        self.held = False

    def locked(self):
        return self.held

    def __enter__(self):
        self.acquire()
        return self

    def __exit__(self, *a):
        self.held = False
        return False

    # cooperative protocol (engine.coop) - a blocked `with` yields instead
    def coop_try_acquire(self):
        if self.held:
            return False
        self.held = True
        return True

    def coop_release(self):
        self.held = False


class Bench:
    def __init__(self, n_peers=1, apps=((4, "auth"),), app_peers=None, realms=None, persistent=False, with_ips=True, default_peers=(), stats=False, peer_realms=None):
        cut_statistics(not stats)
        self.node = Node(NODE_HOST, REALM, ip_addresses=["10.0.0.1"], tcp_port=3868, vendor_ids=[10415])
        if hasattr(self.node, "_busy_lock"):
            self.node._busy_lock = OneThreadLock()
        self.peers = []
        for i in range(n_peers):
            p = self.node.add_peer("aaa://" + PEER_HOSTS[i], (peer_realms[i] if peer_realms else REALM), ip_addresses=["10.0.1.%d" % (i + 1)] if with_ips else None,
                                   is_persistent=persistent, is_default=(i in default_peers))
            self.peers.append(p)
        self.apps = []
        for k, (app_id, kind) in enumerate(apps):
            app = RecApp(app_id, is_auth_application=(kind == "auth"), is_acct_application=(kind == "acct"))
            sel = self.peers if app_peers is None else [self.peers[i] for i in app_peers[k]]
            self.node.add_application(app, sel, realms)
            self.apps.append(app)
        self.node._started = True
        self.listener = VSock(WORLD, "listen")
        self.node.tcp_sockets.append(self.listener)

    # ---- connections
    def accept(self, ip="10.0.1.1"):
        """inbound connection as the I/O loop creates it"""
        c = PeerConnection(ip, 40000, PEER_RECV, interrupt_fileno=self.node.interrupt_write)
        c.state = PEER_CONNECTED
        s = VSock(WORLD)
        self.node._add_peer_connection(c, s, PEER_TRANSPORT_TCP)
        return c, s

    def dial(self, peer, plan="ok"):
        WORLD.connect_plan.append(plan)
        before = set(self.node.connections)
        self.node._connect_to_peer(peer)
        new = [c for i, c in self.node.connections.items() if i not in before]
        return (new[0] if new else None)

    def make_ready(self, peer, ip="10.0.1.1"):
        """inbound connection + CER/CEA through the real handlers"""
        c, s = self.accept(ip)
        self.inject(c, cer(peer.node_name, apps=[a.application_id for a in self.apps]))
        drain(c)
        return c, s

    # ---- traffic
    @staticmethod
    def inject(conn, msg):
        """hand a decoded message to the connection's dispatcher (the CONNECTED-only gate included)"""
        conn._PeerConnection__dispatch_message(msg)

    def sock(self, conn):
        return self.node.peer_sockets.get(conn.ident)


# ----------------------------------------------------------------------------- message builders
def _hdr(m, hbh, e2e, app=0, flags_extra=0):
    m.header.hop_by_hop_identifier = hbh
    m.header.end_to_end_identifier = e2e
    if app:
        m.header.application_id = app
    if flags_extra:
        m.header.command_flags = m.header.command_flags | flags_extra
    return m


def cer(origin, apps=(4,), acct=(), hbh=11, e2e=12, realm=REALM):
    m = CapabilitiesExchangeRequest()
    m.origin_host = origin.encode() if isinstance(origin, str) else origin
    m.origin_realm = realm.encode()
    m.host_ip_address = ["10.0.1.1"]
    m.vendor_id = 1
    m.product_name = "x"
    m.auth_application_id = list(apps)
    m.acct_application_id = list(acct)
    return _hdr(m, hbh, e2e)


def cea(origin, result=2001, apps=(4,), hbh=1, e2e=1):
    m = CapabilitiesExchangeAnswer()
    m.result_code = result
    m.origin_host = origin.encode()
    m.origin_realm = REALM.encode()
    m.host_ip_address = ["10.0.1.1"]
    m.vendor_id = 1
    m.product_name = "x"
    m.auth_application_id = list(apps)
    return _hdr(m, hbh, e2e)


def dwr(origin, hbh=21, e2e=22):
    m = DeviceWatchdogRequest()
    m.origin_host = origin.encode()
    m.origin_realm = REALM.encode()
    return _hdr(m, hbh, e2e)


def dwa(origin, hbh=21, e2e=22, result=2001):
    m = DeviceWatchdogAnswer()
    m.result_code = result
    m.origin_host = origin.encode()
    m.origin_realm = REALM.encode()
    return _hdr(m, hbh, e2e)


def dpr(origin, hbh=31, e2e=32):
    m = DisconnectPeerRequest()
    m.origin_host = origin.encode()
    m.origin_realm = REALM.encode()
    m.disconnect_cause = 0
    return _hdr(m, hbh, e2e)


def dpa(origin, hbh=31, e2e=32):
    m = DisconnectPeerAnswer()
    m.result_code = 2001
    m.origin_host = origin.encode()
    m.origin_realm = REALM.encode()
    return _hdr(m, hbh, e2e)


def ccr(origin, hbh=41, e2e=42, app=4, realm=REALM, session="s;1", flags_extra=0):
    m = CreditControlRequest()
    m.session_id = session
    m.origin_host = origin.encode()
    m.origin_realm = REALM.encode()
    m.destination_realm = realm.encode()
    m.auth_application_id = app
    m.service_context_id = "ctx"
    m.cc_request_type = 1
    m.cc_request_number = 0
    return _hdr(m, hbh, e2e, app, flags_extra)


def cca(origin, hbh=41, e2e=42, app=4, result=2001, session="s;1"):
    m = CreditControlAnswer()
    m.session_id = session
    m.result_code = result
    m.origin_host = origin.encode()
    m.origin_realm = REALM.encode()
    m.auth_application_id = app
    m.cc_request_type = 1
    m.cc_request_number = 0
    return _hdr(m, hbh, e2e, app)


def summarize(msgs):
    """primitive summary of queued messages: (is_request, command code, app id, hbh, e2e, result code)"""
    out = []
    for m in msgs:
        h = m.header
        out.append((bool(h.is_request), h.command_code, h.application_id, h.hop_by_hop_identifier, h.end_to_end_identifier,
                    getattr(m, "result_code", None)))
    return out
